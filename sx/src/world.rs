//! The world: thread-local state shared by the scripted children, the task wakers, the tracking
//! allocator and the monitors. Everything the crate under test sees is a `Future`/`Stream`/`Waker`
//! implemented here; everything the monitors know they learn from these callbacks.
//!
//! Rules (DESIGN §3.4): monitors record, they never panic; no `RefCell` borrow of the world is held
//! across a call into the crate or across a waker operation.

use std::alloc::{GlobalAlloc, Layout, System};
use std::cell::{Cell, RefCell};
use std::future::Future;
use std::marker::{PhantomData, PhantomPinned};
use std::pin::Pin;
use std::task::{Context, Poll, RawWaker, RawWakerVTable, Waker};

use futures_core::Stream;

// ------------------------------------------------------------------------------------------------
// tracking allocator

pub struct TrackAlloc;

thread_local! {
    static IN_CRATE: Cell<u32> = const { Cell::new(0) };
    static CRATE_ALLOCS: Cell<u64> = const { Cell::new(0) };
}

#[inline]
fn note_alloc() {
    let _ = IN_CRATE.try_with(|d| {
        if d.get() > 0 {
            let _ = CRATE_ALLOCS.try_with(|c| c.set(c.get() + 1));
        }
    });
}

unsafe impl GlobalAlloc for TrackAlloc {
    unsafe fn alloc(&self, l: Layout) -> *mut u8 {
        note_alloc();
        let p = unsafe { System.alloc(l) };
        if !p.is_null() && !cfg!(miri) {
            // deterministic garbage: a never-written result slot is recognised by its magic
            // (under Miri the memory stays uninitialised, so that Miri itself reports the read)
            unsafe { std::ptr::write_bytes(p, 0xA5, l.size()) };
        }
        p
    }
    unsafe fn alloc_zeroed(&self, l: Layout) -> *mut u8 {
        note_alloc();
        unsafe { System.alloc_zeroed(l) }
    }
    unsafe fn realloc(&self, p: *mut u8, l: Layout, new: usize) -> *mut u8 {
        // never grow in place: whether a reallocation moves its contents must not depend on the
        // state of the heap (a collection that reallocates pinned storage is then caught every time)
        note_alloc();
        let nl = unsafe { Layout::from_size_align_unchecked(new, l.align()) };
        let q = unsafe { System.alloc(nl) };
        if !q.is_null() {
            if new > l.size() && !cfg!(miri) {
                unsafe { std::ptr::write_bytes(q.add(l.size()), 0xA5, new - l.size()) };
            }
            unsafe { std::ptr::copy_nonoverlapping(p, q, l.size().min(new)) };
            unsafe { System.dealloc(p, l) };
        }
        q
    }
    unsafe fn dealloc(&self, p: *mut u8, l: Layout) {
        unsafe { System.dealloc(p, l) }
    }
}

/// is control currently inside the crate (as opposed to harness code or a harness callback)?
pub fn inside_crate() -> bool {
    IN_CRATE.with(|c| c.get() > 0)
}
pub fn crate_allocs() -> u64 {
    CRATE_ALLOCS.with(|c| c.get())
}
pub fn reset_crate_allocs() {
    CRATE_ALLOCS.with(|c| c.set(0));
    IN_CRATE.with(|c| c.set(0));
}

struct DepthGuard(u32);
impl Drop for DepthGuard {
    fn drop(&mut self) {
        IN_CRATE.with(|c| c.set(self.0));
    }
}
/// Run `f` with "control is inside the crate" set.
#[inline]
pub fn in_crate<R>(f: impl FnOnce() -> R) -> R {
    let old = IN_CRATE.with(|c| c.replace(1));
    let _g = DepthGuard(old);
    f()
}
/// Run `f` as a harness callback: allocations are not attributed to the crate.
#[inline]
pub fn callback<R>(f: impl FnOnce() -> R) -> R {
    let old = IN_CRATE.with(|c| c.replace(0));
    let _g = DepthGuard(old);
    f()
}

// ------------------------------------------------------------------------------------------------
// world

pub const MAGIC: u64 = 0x70CE_0DD5_70CE_0DD5;

#[derive(Clone, Copy, PartialEq, Eq, Hash, Debug)]
pub enum Mode {
    /// completes at its first poll
    Ready,
    /// wakes its own waker, then completes in the same poll
    WakeReady,
    /// pending until the environment completes it
    Gate,
    /// wakes itself and returns Pending once, then completes
    Yield1,
    /// wakes itself and returns Pending at every poll (until the drain flag is set)
    YieldInf,
    /// wakes itself and returns Pending once, then parks like a Gate (pending until completed)
    YieldGate,
    /// like Gate, but at every poll also invokes the stored waker of child `relay_target`
    Relay,
    /// never ready by itself: every poll wakes the *next* ring member (cyclically among the live
    /// `Ring` children that have been polled) and answers Pending — no member ever wakes itself
    Ring,
    /// panics (unwinds through the crate) at its first poll, afterwards behaves like a released Gate
    PanicOnce,
    /// completes at its first poll; its destructor panics (once, and never while already unwinding)
    DropPanic,
    /// a stream child (merge source) driven by a script
    Stream,
}

#[derive(Clone, Copy, PartialEq, Eq, Hash, Debug)]
pub enum Step {
    Item,
    Pend,
    /// yields an item and invokes its own waker in the same poll (a cooperative yield)
    ItemWake,
}

#[derive(Clone, Copy, PartialEq, Eq, Hash, Debug)]
pub enum Ans {
    None,
    Item,
    Pending,
    End,
}

pub struct Child {
    pub mode: Mode,
    pub fail: bool,
    pub relay_target: u32,
    pub accepted: bool,
    pub accept_time: u64,
    pub refused: bool,
    pub polls: u32,
    pub completed: bool,
    pub drops: u32,
    pub addr: usize,
    pub slot: usize,
    pub waker: Option<Waker>,
    pub released: bool,
    pub yielded: u32,
    pub up_pos: u32,
    // C01
    pub owed: bool,
    // C12
    pub credit: u32,
    pub credited_since_poll: bool,
    pub items: u32,
    // streams
    pub script: Vec<Step>,
    pub omega: bool,
    /// the stream invokes its own waker in the poll in which it returns None
    pub wake_on_end: bool,
    /// (streams) the destructor panics when the crate drops the stream
    pub drop_panic: bool,
    pub cursor: usize,
    pub fed: bool,
    pub last_answer: Ans,
    pub next_seq: u32,
    // C13
    pub polls_in_cpoll: u32,
    pub last_cpoll: u64,
    /// (collection poll during/after which the wake happened, children held at that moment)
    pub victim_wake_cpoll: Option<(u64, u64)>,
    /// which unit the child belongs to (0 = the subject; used when two subjects coexist)
    pub is_unit: bool,
    /// the future type has no destructor: its drop cannot be observed
    pub no_drop_glue: bool,
    /// for_each_concurrent: the closure panics when it is called for this item
    pub closure_panics: bool,
    /// index in World::live_ids while the child is held (accepted, not completed, not dropped)
    pub live_pos: u32,
}

pub struct TokRec {
    /// plain-data output (no destructor): excluded from drop accounting
    pub plain: bool,
    pub id: u32,
    pub seq: u32,
    pub err: bool,
    pub drops: u32,
    pub handed: u32,
}

#[derive(Clone, Debug)]
pub struct Violation {
    pub prop: &'static str,
    pub key: String,
    pub msg: String,
}

#[derive(Clone, Copy, PartialEq, Eq, Debug)]
pub enum UpAns {
    ItemGate,
    ItemReady,
    ItemGateFail,
    ItemReadyFail,
    /// an item whose future has the third configured mode (e.g. one that panics in `poll`)
    ItemAlt,
    Pending,
    /// a cooperative yield: wakes the task right away and answers Pending (not blocked afterwards)
    PendingWake,
    Err,
    End,
}

#[derive(Clone, Copy, PartialEq, Eq, Debug, Hash)]
pub enum HintShape {
    Exact,
    Unknown,
    Loose,
    /// honest but with the largest possible upper bound: (r, Some(usize::MAX))
    LooseMax,
}

pub struct UpState {
    pub remaining: usize,
    pub hint: HintShape,
    pub is_try: bool,
    pub ended: bool,
    pub blocked: bool,
    pub fed: bool,
    pub waker: Option<Waker>,
    pub polls: u32,
    pub polled_in_call: bool,
    pub last_answer_in_call: Option<UpAns>,
    pub pulled: u32,
    pub errs_pulled: u32,
    pub next_item: u32,
    pub dropped: u32,
    /// forced behaviour for epilogues
    pub force: Option<UpForce>,
    pub ready_cost: bool,
    pub yields_in_a_row: u32,
    /// for_each_concurrent: the closure panics for items handed out as `ItemAlt`
    pub closure_panic_alt: bool,
    /// concurrency limit of the adapter under test (0 = none) and whether it is an ordered one:
    /// the limit oracles are evaluated at the very moment upstream hands out an item
    pub limit: usize,
    pub ordered: bool,
    /// the two kinds of futures the upstream can hand out (ItemGate / ItemReady slots of the menu)
    pub modes: [Mode; 3],
}

#[derive(Clone, Copy, PartialEq, Eq, Debug)]
pub enum UpForce {
    /// drain: hand out the remaining items as Ready futures, then End
    Drain,
    /// quiesce: answer Pending
    Pending,
}

pub struct Block {
    /// bytes of the block at the moment it was released (deferred free): any later write shows
    pub snapshot: Vec<u8>,
    pub base: usize,
    pub size: usize,
    pub align: usize,
    pub released: u32,
}

pub struct World {
    pub now: u64,
    pub children: Vec<Child>,
    /// ids of the children currently held by the subject (accepted, not completed, not dropped)
    pub live_ids: Vec<u32>,
    pub toks: Vec<TokRec>,
    pub violations: Vec<Violation>,
    // chooser
    pub prefix: Vec<u8>,
    pub choices: Vec<u8>,
    pub arities: Vec<u8>,
    pub costmask: Vec<u64>,
    pub is_top: Vec<bool>,
    pub nondet_error: Option<String>,
    pub horizon: usize,
    pub horizon_hit: bool,
    // collection poll bookkeeping
    pub cpoll_depth: u32,
    pub cpoll_id: u64,
    pub call_id: u64,
    pub completed_in_call: Vec<u32>,
    pub child_polls_in_call: u64,
    pub child_polls_total: u64,
    pub child_wakes_total: u64,
    pub accepted_total: u64,
    pub items_total: u64,
    // task wakers
    pub next_task_waker: usize,
    pub last_poll_waker: usize,
    pub last_poll_woken: bool,
    pub last_poll_pending: bool,
    pub last_poll_start: u64,
    pub task_wakes_total: u64,
    pub env_wake_depth: u32,
    /// (task waker id, child): when that task waker is cloned for the first time, the stored
    /// waker of the child is invoked - a wake landing while the collection registers its task waker
    pub tw_hook: Option<(usize, u32)>,
    /// re-entrancy: the next invocation of a task waker outside a poll drops the subject from inside
    /// the notification (armed by Op::ArmDropOnWake; the driver provides the pointer while it applies a wake)
    pub drop_on_wake_armed: bool,
    pub drop_on_wake_fired: bool,
    // zero-sized futures: identity is the slot (waker data pointer) they are polled in
    pub z_unbound: std::collections::VecDeque<u32>,
    pub z_bound: Vec<(usize, u32)>,
    pub z_created: u32,
    pub z_drops: u32,
    pub z_completed: u32,
    /// destructors of children that panicked so far (liveness oracles are void afterwards)
    pub drop_panics: u32,
    // slot occupancy (RawWaker data pointer -> child)
    pub occupant: Vec<(usize, u32)>,
    // flags
    pub draining: bool,
    /// self-waking children stay quietly Pending until the environment unleashes them
    pub dormant: bool,
    pub spin_limit: u32,
    pub spin_hit: bool,
    /// children let go of the waker they stored when they complete and when they are dropped (as a
    /// channel receiver or a timer does); otherwise the stored wakers outlive them as stale wakers
    pub release_wakers: bool,
    // upstream
    pub up: UpState,
    // FEC closure calls
    pub closure_calls: Vec<u32>,
    // waker blocks (H2 probes)
    pub blocks: Vec<Block>,
    pub defer_free: bool,
    pub vtable_calls: u64,
    // event log (rendered operations), for samples and replays
    pub log: Vec<String>,
    pub log_on: bool,
    pub subject_alive: bool,
    pub child_polls_after_subject_drop: u32,
}

impl World {
    pub fn new() -> Self {
        World {
            now: 0,
            children: Vec::new(),
            live_ids: Vec::new(),
            toks: Vec::new(),
            violations: Vec::new(),
            prefix: Vec::new(),
            choices: Vec::new(),
            arities: Vec::new(),
            costmask: Vec::new(),
            is_top: Vec::new(),
            nondet_error: None,
            horizon: 400,
            horizon_hit: false,
            cpoll_depth: 0,
            cpoll_id: 0,
            call_id: 0,
            completed_in_call: Vec::new(),
            child_polls_in_call: 0,
            child_polls_total: 0,
            child_wakes_total: 0,
            accepted_total: 0,
            items_total: 0,
            next_task_waker: 1,
            last_poll_waker: 0,
            last_poll_woken: false,
            last_poll_pending: false,
            last_poll_start: 0,
            task_wakes_total: 0,
            env_wake_depth: 0,
            tw_hook: None,
            drop_on_wake_armed: false,
            drop_on_wake_fired: false,
            z_unbound: std::collections::VecDeque::new(),
            z_bound: Vec::new(),
            z_created: 0,
            z_drops: 0,
            z_completed: 0,
            drop_panics: 0,
            occupant: Vec::new(),
            draining: false,
            dormant: false,
            spin_limit: 2_000,
            spin_hit: false,
            release_wakers: false,
            up: UpState {
                remaining: 0,
                hint: HintShape::Exact,
                is_try: false,
                ended: false,
                blocked: false,
                fed: false,
                waker: None,
                polls: 0,
                polled_in_call: false,
                last_answer_in_call: None,
                pulled: 0,
                errs_pulled: 0,
                next_item: 0,
                dropped: 0,
                force: None,
                ready_cost: true,
                yields_in_a_row: 0,
                closure_panic_alt: false,
                limit: 0,
                ordered: false,
                modes: [Mode::Gate, Mode::Ready, Mode::Ready],
            },
            closure_calls: Vec::new(),
            blocks: Vec::new(),
            // under Miri the real free happens, so that Miri sees a use after it
            defer_free: !cfg!(miri),
            vtable_calls: 0,
            log: Vec::new(),
            log_on: false,
            subject_alive: true,
            child_polls_after_subject_drop: 0,
        }
    }

    pub fn violate(&mut self, prop: &'static str, key: impl Into<String>, msg: impl Into<String>) {
        let key = key.into();
        // once a child's destructor has panicked, the output it had just produced is legitimately lost
        // (it was destroyed by the unwinding): counting/liveness oracles are void for the rest of the
        // execution; the safety oracles (foreign values, double drops, leaks of other objects, moves,
        // use after release) stay in force
        const VOID_AFTER_DROP_PANIC: &[&str] = &[
            "pending-while-empty", "none-while-holding", "queue-ended-before-front", "does-not-finish", "accepted-never-yielded",
            "queue-item-never-yielded", "item-lost", "output-or-error-lost", "len-mismatch", "is_empty-mismatch", "size_hint-mismatch",
            "is_terminated-mismatch", "refusal-disturbed-held-futures", "lower-bound-too-high", "upper-bound-too-low", "ended-early",
            "pending-after-exhaustion", "not-work-conserving", "closure-call-count",
        ];
        if self.drop_panics > 0 && VOID_AFTER_DROP_PANIC.contains(&key.as_str()) {
            return;
        }
        if self.violations.iter().any(|v| v.prop == prop && v.key == key) {
            return;
        }
        self.violations.push(Violation { prop, key, msg: msg.into() });
    }

    pub fn logf(&mut self, f: impl FnOnce() -> String) {
        if self.log_on {
            let s = f();
            self.log.push(s);
        }
    }

    /// The single source of nondeterminism. `costmask` bit i set = alternative i costs one deviation.
    pub fn choose(&mut self, arity: usize, costmask: u64, top: bool) -> usize {
        assert!(arity >= 1 && arity <= 64);
        let pos = self.choices.len();
        if pos >= self.horizon {
            self.horizon_hit = true;
            // do not record: beyond the horizon everything takes the default
            return 0;
        }
        let c = if pos < self.prefix.len() {
            let c = self.prefix[pos] as usize;
            if c >= arity && self.nondet_error.is_none() {
                self.nondet_error = Some(format!(
                    "replayed choice {} out of range (arity {}) at point {}",
                    c, arity, pos
                ));
                0
            } else {
                c
            }
        } else {
            0
        };
        self.choices.push(c as u8);
        self.arities.push(arity as u8);
        self.costmask.push(costmask);
        self.is_top.push(top);
        c
    }

    pub fn new_child(&mut self, mode: Mode) -> u32 {
        let id = self.children.len() as u32;
        self.children.push(Child {
            mode,
            fail: false,
            relay_target: 0,
            accepted: false,
            accept_time: 0,
            refused: false,
            polls: 0,
            completed: false,
            drops: 0,
            addr: 0,
            slot: 0,
            waker: None,
            released: false,
            yielded: 0,
            up_pos: 0,
            owed: false,
            credit: 0,
            credited_since_poll: false,
            items: 0,
            script: Vec::new(),
            omega: false,
            wake_on_end: false,
            drop_panic: false,
            cursor: 0,
            fed: false,
            last_answer: Ans::None,
            next_seq: 0,
            polls_in_cpoll: 0,
            last_cpoll: 0,
            victim_wake_cpoll: None,
            is_unit: false,
            no_drop_glue: false,
            closure_panics: false,
            live_pos: u32::MAX,
        });
        id
    }

    pub fn accept(&mut self, id: u32) {
        self.now += 1;
        let now = self.now;
        let c = &mut self.children[id as usize];
        c.accepted = true;
        c.accept_time = now;
        c.owed = true;
        c.credit = 1;
        c.live_pos = self.live_ids.len() as u32;
        self.live_ids.push(id);
        self.accepted_total += 1;
    }

    /// the child stops being held (completed or dropped)
    pub fn unlive(&mut self, id: u32) {
        let pos = self.children[id as usize].live_pos;
        if pos == u32::MAX {
            return;
        }
        self.children[id as usize].live_pos = u32::MAX;
        let last = self.live_ids.pop().unwrap();
        if last != id {
            self.live_ids[pos as usize] = last;
            self.children[last as usize].live_pos = pos;
        }
    }

    pub fn held(&self) -> usize {
        self.live_ids.len()
    }

    fn occupant_of(&self, data: usize) -> Option<u32> {
        self.occupant.iter().find(|(p, _)| *p == data).map(|(_, c)| *c)
    }
    fn set_occupant(&mut self, data: usize, id: u32) {
        if let Some(e) = self.occupant.iter_mut().find(|(p, _)| *p == data) {
            e.1 = id;
        } else {
            self.occupant.push((data, id));
        }
    }
    fn clear_occupant(&mut self, id: u32) {
        self.occupant.retain(|(_, c)| *c != id);
    }

    /// A child waker (identified by its RawWaker data pointer) is being invoked.
    pub fn note_child_wake(&mut self, data: usize) {
        self.now += 1;
        self.child_wakes_total += 1;
        if let Some(id) = self.occupant_of(data) {
            let cp = self.cpoll_id;
            let held_now = self.held() as u64;
            let c = &mut self.children[id as usize];
            if c.accepted && c.drops == 0 && !c.completed {
                c.owed = true;
                if !c.credited_since_poll {
                    c.credited_since_poll = true;
                    c.credit += 1;
                }
                if c.victim_wake_cpoll.is_none() {
                    c.victim_wake_cpoll = Some((cp, held_now));
                }
            }
        }
    }

    pub fn task_woken(&mut self, id: usize) {
        self.now += 1;
        self.task_wakes_total += 1;
        if id == self.last_poll_waker {
            self.last_poll_woken = true;
        }
        if self.cpoll_depth == 0 && self.env_wake_depth == 0 {
            self.violate(
                "C14",
                "task-woken-without-child-wake",
                format!("task waker #{} invoked outside any poll and not as a consequence of a child-waker invocation", id),
            );
        }
        self.logf(|| format!("    task waker #{} invoked", id));
    }
}

thread_local! {
    static WORLD: RefCell<World> = RefCell::new(World::new());
}

#[inline]
pub fn w<R>(f: impl FnOnce(&mut World) -> R) -> R {
    WORLD.with(|c| f(&mut c.borrow_mut()))
}

pub fn choose(arity: usize, costmask: u64, top: bool) -> usize {
    w(|w| w.choose(arity, costmask, top))
}

// ------------------------------------------------------------------------------------------------
// tokens

#[repr(C)]
pub struct Tok {
    pub magic: u64,
    pub serial: u32,
    pub id: u32,
    pub seq: u32,
    pub err: u32,
}

impl Tok {
    pub fn produce(id: u32, seq: u32, err: bool) -> Tok {
        let serial = w(|w| {
            w.toks.push(TokRec { plain: false, id, seq, err, drops: 0, handed: 0 });
            (w.toks.len() - 1) as u32
        });
        Tok { magic: MAGIC, serial, id, seq, err: err as u32 }
    }
    pub fn valid(&self) -> bool {
        self.magic == MAGIC
    }
}

/// An output type without a destructor (the crate may treat such types differently, e.g. through
/// `needs_drop`): same payload as `Tok`, validated the same way when it is handed out.
#[repr(C)]
#[derive(Clone, Copy)]
pub struct PTok {
    pub magic: u64,
    pub serial: u32,
    pub id: u32,
    pub seq: u32,
    pub err: u32,
}
impl PTok {
    pub fn produce(id: u32, err: bool) -> PTok {
        let serial = w(|w| {
            w.toks.push(TokRec { plain: true, id, seq: 0, err, drops: 0, handed: 0 });
            (w.toks.len() - 1) as u32
        });
        PTok { magic: MAGIC, serial, id, seq: 0, err: err as u32 }
    }
    /// hand the value to the harness' accounting (the resulting Tok is dropped by the harness)
    pub fn into_tok(self) -> Tok {
        Tok { magic: self.magic, serial: self.serial, id: self.id, seq: self.seq, err: self.err }
    }
}
impl Out for PTok {
    fn produce(id: u32, _fail: bool) -> Self {
        PTok::produce(id, false)
    }
}
impl Out for Result<PTok, PTok> {
    fn produce(id: u32, fail: bool) -> Self {
        if fail {
            Err(PTok::produce(id, true))
        } else {
            Ok(PTok::produce(id, false))
        }
    }
}

impl Drop for Tok {
    fn drop(&mut self) {
        callback(|| {
            w(|w| {
                if self.magic != MAGIC {
                    w.violate(
                        "C07",
                        "garbage-token",
                        format!("a value that no input produced was dropped (magic {:#x})", self.magic),
                    );
                    return;
                }
                let s = self.serial as usize;
                if s >= w.toks.len() {
                    w.violate("C07", "garbage-token", "token with unknown serial dropped");
                    return;
                }
                w.toks[s].drops += 1;
            })
        })
    }
}

/// The harness receives a token from the crate: validate and account it. Returns (id, seq, err).
pub fn receive_tok(t: Tok, ctx: &str) -> Option<(u32, u32, bool)> {
    let r = w(|w| {
        if t.magic != MAGIC || (t.serial as usize) >= w.toks.len() {
            w.violate(
                "C07",
                "foreign-value-returned",
                format!("{}: returned a value that no input produced (magic {:#x}, id {:#x})", ctx, t.magic, t.id),
            );
            return None;
        }
        let rec = &mut w.toks[t.serial as usize];
        rec.handed += 1;
        let (h, d, id, seq, err) = (rec.handed, rec.drops, rec.id, rec.seq, rec.err);
        if h > 1 || d > 0 {
            w.violate(
                "C07",
                "value-returned-twice",
                format!("{}: output of child {} handed out {} times (already dropped {} times)", ctx, id, h, d),
            );
        }
        Some((id, seq, err))
    });
    drop(t);
    r
}

// ------------------------------------------------------------------------------------------------
// task wakers: data = id, never allocate

static TASK_VTABLE: RawWakerVTable = RawWakerVTable::new(tw_clone, tw_wake, tw_wake, tw_drop);

unsafe fn tw_clone(d: *const ()) -> RawWaker {
    let hook = w(|w| match w.tw_hook {
        Some((id, c)) if id == d as usize => {
            w.tw_hook = None;
            Some(c)
        }
        _ => None,
    });
    if let Some(c) = hook {
        callback(|| {
            w(|w| w.logf(|| format!("    (task waker being cloned: the waker of child {} is invoked right now)", c)));
            if let Some(wk) = clone_child_waker(c) {
                invoke_child_waker(&wk);
                in_crate(|| drop(wk));
            }
        });
    }
    RawWaker::new(d, &TASK_VTABLE)
}
thread_local! {
    /// set by the driver while it applies an environment wake: the task waker may drop the subject through it
    pub static DROP_HOOK: Cell<Option<fn()>> = const { Cell::new(None) };
}
unsafe fn tw_wake(d: *const ()) {
    callback(|| {
        let fire = w(|w| {
            w.task_woken(d as usize);
            if w.drop_on_wake_armed && w.cpoll_depth == 0 {
                w.drop_on_wake_armed = false;
                w.drop_on_wake_fired = true;
                true
            } else {
                false
            }
        });
        if fire {
            if let Some(f) = DROP_HOOK.with(|h| h.get()) {
                w(|w| w.logf(|| "    (the task waker drops the collection from inside the notification)".to_string()));
                f();
            }
        }
    })
}
unsafe fn tw_drop(_d: *const ()) {}

pub fn task_waker(id: usize) -> Waker {
    unsafe { Waker::from_raw(RawWaker::new(id as *const (), &TASK_VTABLE)) }
}

/// Invoke a child waker the way the environment does: attributed, counted, inside-the-crate.
pub fn invoke_child_waker(wk: &Waker) {
    let data = wk.data() as usize;
    w(|w| {
        w.note_child_wake(data);
        w.env_wake_depth += 1;
    });
    in_crate(|| wk.wake_by_ref());
    w(|w| w.env_wake_depth -= 1);
}
pub fn invoke_child_waker_owned(wk: Waker) {
    let data = wk.data() as usize;
    w(|w| {
        w.note_child_wake(data);
        w.env_wake_depth += 1;
    });
    in_crate(|| wk.wake());
    w(|w| w.env_wake_depth -= 1);
}

// ------------------------------------------------------------------------------------------------
// scripted future

pub trait Out: Sized + 'static {
    fn produce(id: u32, fail: bool) -> Self;
}
impl Out for Tok {
    fn produce(id: u32, _fail: bool) -> Self {
        Tok::produce(id, 0, false)
    }
}
impl Out for Result<Tok, Tok> {
    fn produce(id: u32, fail: bool) -> Self {
        if fail {
            Err(Tok::produce(id, 0, true))
        } else {
            Ok(Tok::produce(id, 0, false))
        }
    }
}
impl Out for () {
    fn produce(_id: u32, _fail: bool) -> Self {}
}

pub struct ScriptFut<O: Out> {
    pub id: u32,
    _pin: PhantomPinned,
    _o: PhantomData<fn() -> O>,
}

impl<O: Out> ScriptFut<O> {
    pub fn new(id: u32) -> Self {
        ScriptFut { id, _pin: PhantomPinned, _o: PhantomData }
    }
}

/// payload of the panic a `PanicOnce` child raises
pub struct ChildPanic(pub u32);

enum Act {
    Bad,
    Panic,
    Complete,
    Pending,
    WakeSelfPending,
    WakeSelfComplete,
    RelayPending(Option<Waker>),
    RingPending,
}

fn child_poll_begin(w: &mut World, id: u32, addr: usize, data: usize) -> bool {
    w.now += 1;
    let cp = w.cpoll_id;
    let in_poll = w.cpoll_depth > 0;
    if !w.subject_alive {
        w.child_polls_after_subject_drop += 1;
    }
    w.child_polls_total += 1;
    w.child_polls_in_call += 1;
    let c = &mut w.children[id as usize];
    if c.completed {
        let mode = c.mode;
        w.violate(
            "C05",
            "polled-after-completion",
            format!("child {} ({:?}) was polled again after it had completed", id, mode),
        );
        return false;
    }
    if c.drops > 0 {
        w.violate("C06", "polled-after-drop", format!("child {} polled after it was dropped", id));
        return false;
    }
    c.polls += 1;
    if c.addr == 0 {
        c.addr = addr;
    } else if c.addr != addr {
        let a = c.addr;
        w.violate(
            "C08",
            "child-moved",
            format!("child {} was first polled at {:#x} and is now polled at {:#x}", id, a, addr),
        );
    }
    let c = &mut w.children[id as usize];
    c.owed = false;
    c.credited_since_poll = false;
    c.slot = data;
    c.victim_wake_cpoll = None;
    if c.last_cpoll != cp {
        c.last_cpoll = cp;
        c.polls_in_cpoll = 0;
    }
    c.polls_in_cpoll += 1;
    // C12, per child
    if c.polls > c.credit + c.items {
        let (p, cr, it) = (c.polls, c.credit, c.items);
        w.violate(
            "C12",
            "child-polled-without-notification",
            format!("child {} polled {} times with only {} notification(s) (push + distinct wake intervals) and {} item(s) yielded", id, p, cr, it),
        );
    }
    if !in_poll {
        w.violate("C12", "child-polled-outside-poll", format!("child {} polled outside a poll of the subject", id));
    }
    w.set_occupant(data, id);
    // C12, global
    if w.child_polls_total > w.accepted_total + w.child_wakes_total + w.items_total {
        let (a, b, c2, d) = (w.child_polls_total, w.accepted_total, w.child_wakes_total, w.items_total);
        w.violate(
            "C12",
            "total-polls-exceed-notifications",
            format!("{} child polls > {} accepted pushes + {} child-waker invocations + {} merge items", a, b, c2, d),
        );
    }
    true
}

/// (called in crate context) the child lets go of the waker it stored, if the scenario says so
fn release_own_waker(id: u32) {
    let wk = callback(|| w(|w| if w.release_wakers { w.children.get_mut(id as usize).and_then(|c| c.waker.take()) } else { None }));
    if let Some(wk) = wk {
        callback(|| w(|w| w.logf(|| format!("    child {} lets go of its stored waker", id))));
        drop(wk);
    }
}

fn store_waker(id: u32, cx: &Context<'_>) {
    let new = in_crate(|| cx.waker().clone());
    let old = w(|w| w.children[id as usize].waker.replace(new));
    in_crate(|| drop(old));
}

fn complete_child(w: &mut World, id: u32) {
    let c = &mut w.children[id as usize];
    c.completed = true;
    c.owed = false;
    w.completed_in_call.push(id);
    w.clear_occupant(id);
    w.unlive(id);
    if w.z_bound.iter().any(|(_, c)| *c == id) {
        w.z_completed += 1;
    }
    w.z_bound.retain(|(_, c)| *c != id);
}

impl<O: Out> Future for ScriptFut<O> {
    type Output = O;
    fn poll(self: Pin<&mut Self>, cx: &mut Context<'_>) -> Poll<O> {
        let addr = &*self as *const Self as usize;
        script_poll::<O>(self.id, addr, cx)
    }
}

/// A scripted future *without* drop glue (the crate may special-case such types, e.g. through
/// `needs_drop`). Its drop cannot be observed; everything else is monitored as for `ScriptFut`.
pub struct NdFut<O: Out> {
    pub id: u32,
    _pin: PhantomPinned,
    _o: PhantomData<fn() -> O>,
}
impl<O: Out> NdFut<O> {
    pub fn new(id: u32) -> Self {
        w(|w| w.children[id as usize].no_drop_glue = true);
        NdFut { id, _pin: PhantomPinned, _o: PhantomData }
    }
}
impl<O: Out> Future for NdFut<O> {
    type Output = O;
    fn poll(self: Pin<&mut Self>, cx: &mut Context<'_>) -> Poll<O> {
        let addr = &*self as *const Self as usize;
        script_poll::<O>(self.id, addr, cx)
    }
}

/// A scripted future that is a zero-sized type *with* a destructor (a crate may special-case
/// zero-sized types). It cannot carry an id: its identity is the slot it is polled in (the data
/// pointer of the waker it is handed), bound at its first poll in push order; its drops can only be
/// counted.
pub struct ZFut {
    _pin: PhantomPinned,
}
impl ZFut {
    pub fn new(id: u32) -> Self {
        w(|w| {
            w.children[id as usize].no_drop_glue = true; // drops are counted, not attributed
            w.z_unbound.push_back(id);
            w.z_created += 1;
        });
        ZFut { _pin: PhantomPinned }
    }
    /// the harness gets one back (refused push): its drop is counted like any other, the id it was
    /// created for is no longer waiting for a slot
    pub fn unbind_latest() -> u32 {
        w(|w| w.z_unbound.pop_back().unwrap_or(u32::MAX))
    }
}
impl Future for ZFut {
    type Output = Tok;
    fn poll(self: Pin<&mut Self>, cx: &mut Context<'_>) -> Poll<Tok> {
        let data = cx.waker().data() as usize;
        let id = callback(|| {
            w(|w| {
                if let Some((_, c)) = w.z_bound.iter().find(|(p, _)| *p == data) {
                    return Some(*c);
                }
                let c = w.z_unbound.pop_front()?;
                w.z_bound.push((data, c));
                Some(c)
            })
        });
        match id {
            Some(id) => script_poll::<Tok>(id, 1, cx),
            None => {
                callback(|| w(|w| w.violate("C05", "unknown-zero-sized-child-polled", "a zero-sized child was polled in a slot no pushed child can be in")));
                Poll::Pending
            }
        }
    }
}
impl Drop for ZFut {
    fn drop(&mut self) {
        callback(|| w(|w| w.z_drops += 1))
    }
}

fn script_poll<O: Out>(id: u32, addr: usize, cx: &mut Context<'_>) -> Poll<O> {
    let r = script_poll_inner(id, addr, cx);
    if r.is_ready() {
        release_own_waker(id);
    }
    r
}

fn script_poll_inner<O: Out>(id: u32, addr: usize, cx: &mut Context<'_>) -> Poll<O> {
    {
        callback(|| {
            let data = cx.waker().data() as usize;
            let ok = w(|w| child_poll_begin(w, id, addr, data));
            if !ok {
                return Poll::Pending;
            }
            store_waker(id, cx);
            let act = w(|w| {
                let draining = w.draining;
                let dormant = w.dormant;
                let spin_limit = w.spin_limit;
                let spin_hit = w.spin_hit;
                let c = &mut w.children[id as usize];
                let act = match c.mode {
                    Mode::Ready => Act::Complete,
                    Mode::WakeReady => Act::WakeSelfComplete,
                    Mode::Gate => {
                        if c.released || draining {
                            Act::Complete
                        } else {
                            Act::Pending
                        }
                    }
                    Mode::Yield1 => {
                        if c.yielded >= 1 || draining {
                            Act::Complete
                        } else {
                            c.yielded += 1;
                            Act::WakeSelfPending
                        }
                    }
                    Mode::YieldGate => {
                        if c.released || draining {
                            Act::Complete
                        } else if c.yielded < 1 {
                            c.yielded += 1;
                            Act::WakeSelfPending
                        } else {
                            Act::Pending
                        }
                    }
                    Mode::YieldInf => {
                        if draining || c.released {
                            Act::Complete
                        } else if dormant {
                            Act::Pending
                        } else if c.polls_in_cpoll > spin_limit {
                            Act::Bad
                        } else {
                            Act::WakeSelfPending
                        }
                    }
                    Mode::Relay => {
                        if c.released || draining {
                            Act::Complete
                        } else {
                            Act::RelayPending(None)
                        }
                    }
                    Mode::Ring => {
                        if draining || c.released {
                            Act::Complete
                        } else if dormant {
                            Act::Pending
                        } else if c.polls_in_cpoll > spin_limit || spin_hit {
                            Act::Bad
                        } else {
                            Act::RingPending
                        }
                    }
                    Mode::DropPanic => Act::Complete,
                    Mode::PanicOnce => {
                        if c.polls <= 1 && !draining {
                            Act::Panic
                        } else {
                            Act::Complete
                        }
                    }
                    Mode::Stream => Act::Bad,
                };
                if let Act::Bad = act {
                    w.spin_hit = true;
                }
                act
            });
            let fail = w(|w| w.children[id as usize].fail);
            match act {
                Act::Bad => Poll::Pending,
                Act::Panic => {
                    w(|w| w.logf(|| format!("    child {} polled -> panics", id)));
                    std::panic::resume_unwind(Box::new(ChildPanic(id)))
                }
                Act::Pending => {
                    w(|w| w.logf(|| format!("    child {} polled -> Pending", id)));
                    Poll::Pending
                }
                Act::Complete => {
                    w(|w| {
                        complete_child(w, id);
                        w.logf(|| format!("    child {} polled -> Ready", id));
                    });
                    Poll::Ready(O::produce(id, fail))
                }
                Act::WakeSelfPending => {
                    w(|w| w.logf(|| format!("    child {} polled -> wakes itself, Pending", id)));
                    invoke_child_waker(cx.waker());
                    Poll::Pending
                }
                Act::WakeSelfComplete => {
                    w(|w| w.logf(|| format!("    child {} polled -> wakes itself, Ready", id)));
                    invoke_child_waker(cx.waker());
                    w(|w| complete_child(w, id));
                    Poll::Ready(O::produce(id, fail))
                }
                Act::RingPending => {
                    let t = w(|w| {
                        let n = w.children.len();
                        let ok = |c: &Child| c.mode == Mode::Ring && c.accepted && c.drops == 0 && !c.completed && c.waker.is_some();
                        (1..=n).map(|d| (id as usize + d) % n).find(|&j| ok(&w.children[j])).map(|j| j as u32)
                    });
                    w(|w| w.logf(|| format!("    child {} polled -> wakes ring member {:?}, Pending", id, t)));
                    if let Some(t) = t {
                        if let Some(wk) = clone_child_waker(t) {
                            invoke_child_waker(&wk);
                            in_crate(|| drop(wk));
                        }
                    }
                    Poll::Pending
                }
                Act::RelayPending(_) => {
                    w(|w| w.logf(|| format!("    child {} polled -> relays a wake, Pending", id)));
                    let t = w(|w| w.children[id as usize].relay_target);
                    if let Some(wk) = clone_child_waker(t) {
                        invoke_child_waker(&wk);
                        in_crate(|| drop(wk));
                    }
                    Poll::Pending
                }
            }
        })
    }
}

/// Clone the stored waker of child `id`. Cloning runs crate code (and the H2 probes, which borrow
/// the world), so no borrow may be held meanwhile: take the address, clone outside the borrow.
pub fn clone_child_waker(id: u32) -> Option<Waker> {
    let p: Option<*const Waker> = w(|w| w.children.get(id as usize).and_then(|c| c.waker.as_ref().map(|k| k as *const Waker)));
    p.map(|p| in_crate(|| unsafe { (*p).clone() }))
}

fn child_dropped(w: &mut World, id: u32, addr: usize) {
    w.now += 1;
    let c = &mut w.children[id as usize];
    c.drops += 1;
    if c.drops > 1 {
        let d = c.drops;
        w.violate("C06", "child-dropped-twice", format!("child {} dropped {} times", id, d));
        return;
    }
    if c.addr != 0 && c.addr != addr {
        let a = c.addr;
        w.violate(
            "C08",
            "child-moved",
            format!("child {} was first polled at {:#x} and is dropped at {:#x}", id, a, addr),
        );
    }
    w.clear_occupant(id);
    w.unlive(id);
    w.logf(|| format!("    child {} dropped", id));
}

impl<O: Out> Drop for ScriptFut<O> {
    fn drop(&mut self) {
        let id = self.id;
        let addr = self as *const Self as usize;
        // the destructor only panics when it is the crate that drops the child
        let by_crate = inside_crate();
        let boom = by_crate && callback(|| {
            w(|w| {
                child_dropped(w, id, addr);
                let c = &w.children[id as usize];
                if c.mode == Mode::DropPanic && c.drops == 1 && !std::thread::panicking() {
                    w.drop_panics += 1;
                    w.logf(|| format!("    child {}'s destructor panics", id));
                    true
                } else {
                    false
                }
            })
        });
        if !by_crate {
            callback(|| w(|w| child_dropped(w, id, addr)));
        } else {
            release_own_waker(id);
        }
        if boom {
            // (the payload and the unwinder's exception object are the harness's allocations, not the crate's)
            callback(|| std::panic::resume_unwind(Box::new(ChildPanic(id))));
        }
    }
}

// ------------------------------------------------------------------------------------------------
// scripted stream (merge source)

pub struct ScriptStream {
    pub id: u32,
    _pin: PhantomPinned,
}
impl ScriptStream {
    pub fn new(id: u32) -> Self {
        ScriptStream { id, _pin: PhantomPinned }
    }
}

enum SAct {
    Bad,
    Item(u32),
    ItemWake(u32),
    Pending,
    End,
}

impl Stream for ScriptStream {
    type Item = Tok;
    fn poll_next(self: Pin<&mut Self>, cx: &mut Context<'_>) -> Poll<Option<Tok>> {
        let id = self.id;
        let addr = &*self as *const Self as usize;
        stream_poll(id, addr, cx)
    }
}
fn stream_poll(id: u32, addr: usize, cx: &mut Context<'_>) -> Poll<Option<Tok>> {
    let r = stream_poll_inner(id, addr, cx);
    if let Poll::Ready(None) = r {
        release_own_waker(id);
    }
    r
}
fn stream_poll_inner(id: u32, addr: usize, cx: &mut Context<'_>) -> Poll<Option<Tok>> {
    {
        callback(|| {
            let data = cx.waker().data() as usize;
            let ok = w(|w| child_poll_begin(w, id, addr, data));
            if !ok {
                return Poll::Pending;
            }
            store_waker(id, cx);
            let act = w(|w| {
                let draining = w.draining;
                let dormant = w.dormant;
                let spin_limit = w.spin_limit;
                let c = &mut w.children[id as usize];
                let act = loop {
                    if c.omega && dormant && !draining && !c.released {
                        break SAct::Pending;
                    }
                    if c.omega && !draining && !c.released {
                        if c.polls_in_cpoll > spin_limit {
                            break SAct::Bad;
                        }
                        let s = c.next_seq;
                        c.next_seq += 1;
                        break SAct::Item(s);
                    }
                    if c.omega {
                        break SAct::End;
                    }
                    match c.script.get(c.cursor) {
                        None => break SAct::End,
                        Some(Step::Item) => {
                            c.cursor += 1;
                            let s = c.next_seq;
                            c.next_seq += 1;
                            break SAct::Item(s);
                        }
                        Some(Step::ItemWake) => {
                            c.cursor += 1;
                            let s = c.next_seq;
                            c.next_seq += 1;
                            break SAct::ItemWake(s);
                        }
                        Some(Step::Pend) => {
                            if c.fed || draining {
                                c.fed = false;
                                c.cursor += 1;
                                continue;
                            }
                            break SAct::Pending;
                        }
                    }
                };
                match act {
                    SAct::Bad => w.spin_hit = true,
                    SAct::Item(_) | SAct::ItemWake(_) => {
                        c.last_answer = Ans::Item;
                        c.items += 1;
                        w.items_total += 1;
                    }
                    SAct::Pending => c.last_answer = Ans::Pending,
                    SAct::End => {
                        c.last_answer = Ans::End;
                        complete_child(w, id);
                    }
                }
                act
            });
            match act {
                SAct::Bad => Poll::Pending,
                SAct::Item(s) => {
                    w(|w| w.logf(|| format!("    source {} polled -> Item #{}", id, s)));
                    Poll::Ready(Some(Tok::produce(id, s, false)))
                }
                SAct::ItemWake(s) => {
                    w(|w| w.logf(|| format!("    source {} polled -> wakes itself, Item #{}", id, s)));
                    invoke_child_waker(cx.waker());
                    Poll::Ready(Some(Tok::produce(id, s, false)))
                }
                SAct::Pending => {
                    w(|w| w.logf(|| format!("    source {} polled -> Pending", id)));
                    Poll::Pending
                }
                SAct::End => {
                    if w(|w| w.children[id as usize].wake_on_end) {
                        w(|w| w.logf(|| format!("    source {} wakes itself while ending", id)));
                        invoke_child_waker(cx.waker());
                    }
                    w(|w| w.logf(|| format!("    source {} polled -> None", id)));
                    Poll::Ready(None)
                }
            }
        })
    }
}

impl Drop for ScriptStream {
    fn drop(&mut self) {
        stream_drop(self.id, self as *const Self as usize)
    }
}

/// The same scripted source as an `Unpin` value: it lives directly in the collection's slot (a
/// `ScriptStream` is `!Unpin` and has to be boxed for the unbounded merge), so that a collection
/// which relocates its `Unpin` streams is seen doing so.
pub struct UStream {
    pub id: u32,
}
impl Stream for UStream {
    type Item = Tok;
    fn poll_next(self: Pin<&mut Self>, cx: &mut Context<'_>) -> Poll<Option<Tok>> {
        let id = self.id;
        let addr = &*self as *const Self as usize;
        stream_poll(id, addr, cx)
    }
}
impl Drop for UStream {
    fn drop(&mut self) {
        stream_drop(self.id, self as *const Self as usize)
    }
}

fn stream_drop(id: u32, addr: usize) {
    {
        let by_crate = inside_crate();
        let boom = callback(|| {
            w(|w| {
                child_dropped(w, id, addr);
                let c = &w.children[id as usize];
                if by_crate && c.drop_panic && c.drops == 1 && !std::thread::panicking() {
                    w.drop_panics += 1;
                    w.logf(|| format!("    source {}'s destructor panics", id));
                    true
                } else {
                    false
                }
            })
        });
        if by_crate {
            release_own_waker(id);
        }
        if boom {
            // (the payload and the unwinder's exception object are the harness's allocations, not the crate's)
            callback(|| std::panic::resume_unwind(Box::new(ChildPanic(id))));
        }
    }
}

// ------------------------------------------------------------------------------------------------
// scripted upstream for the adapters

/// What the upstream hands to the adapter: built by `mk` from the fresh child id.
pub trait UpItem: Sized + 'static {
    const RAW: bool = false;
    /// `Some(Err)` items are upstream errors (try streams only)
    fn item(id: u32) -> Self;
    fn error(_tok: Tok) -> Option<Self> {
        None
    }
}
impl UpItem for ScriptFut<Tok> {
    fn item(id: u32) -> Self {
        ScriptFut::new(id)
    }
}
impl UpItem for ScriptFut<()> {
    fn item(id: u32) -> Self {
        ScriptFut::new(id)
    }
}
impl UpItem for Result<ScriptFut<Result<Tok, Tok>>, Tok> {
    fn item(id: u32) -> Self {
        Ok(ScriptFut::new(id))
    }
    fn error(tok: Tok) -> Option<Self> {
        Some(Err(tok))
    }
}
/// for_each_concurrent: a plain item that the closure turns into a future
pub struct RawItem(pub u32);
impl UpItem for RawItem {
    const RAW: bool = true;
    fn item(id: u32) -> Self {
        RawItem(id)
    }
}

pub struct Upstream<I: UpItem> {
    _i: PhantomData<fn() -> I>,
}
impl<I: UpItem> Upstream<I> {
    pub fn new() -> Self {
        Upstream { _i: PhantomData }
    }
}
impl<I: UpItem> Unpin for Upstream<I> {}

pub const UP_ERR_ID: u32 = 0x00EE_0000;

impl<I: UpItem> Stream for Upstream<I> {
    type Item = I;
    fn poll_next(self: Pin<&mut Self>, cx: &mut Context<'_>) -> Poll<Option<I>> {
        callback(|| {
            // decide the answer
            let ans = w(|w| {
                w.now += 1;
                w.up.polls += 1;
                w.up.polled_in_call = true;
                if w.up.ended {
                    w.violate("C10", "upstream-polled-after-end", "upstream was polled again after it had returned None");
                    return UpAns::End;
                }
                if w.cpoll_depth == 0 {
                    w.violate("C10", "upstream-polled-outside-poll", "upstream polled outside a poll of the adapter");
                }
                let ans = match w.up.force {
                    Some(UpForce::Pending) => UpAns::Pending,
                    Some(UpForce::Drain) => {
                        if w.up.remaining == 0 {
                            UpAns::End
                        } else {
                            UpAns::ItemReady
                        }
                    }
                    None => {
                        if w.up.blocked && !w.up.fed {
                            UpAns::Pending
                        } else if w.up.remaining == 0 {
                            // may still hesitate once before ending
                            let k = w.choose(2, 0b10, false);
                            [UpAns::End, UpAns::Pending][k]
                        } else {
                            let rc = w.up.ready_cost;
                            let mut menu: Vec<(UpAns, bool)> = vec![(UpAns::ItemGate, false), (UpAns::ItemReady, rc), (UpAns::Pending, true)];
                            // a yielding upstream must eventually produce: at most two yields in a row
                            if w.up.yields_in_a_row < 2 {
                                menu.push((UpAns::PendingWake, true));
                            }
                            if w.up.modes[2] != w.up.modes[1] || w.up.closure_panic_alt {
                                menu.push((UpAns::ItemAlt, true));
                            }
                            if w.up.is_try {
                                menu.push((UpAns::Err, true));
                                menu.push((UpAns::ItemGateFail, true));
                                menu.push((UpAns::ItemReadyFail, true));
                            }
                            let mask: u64 = menu.iter().enumerate().map(|(i, (_, c))| if *c { 1u64 << i } else { 0 }).sum();
                            let menu: Vec<UpAns> = menu.into_iter().map(|(a, _)| a).collect();
                            let k = w.choose(menu.len(), mask, false);
                            menu[k]
                        }
                    }
                };
                w.up.fed = false;
                w.up.yields_in_a_row = if ans == UpAns::PendingWake { w.up.yields_in_a_row + 1 } else { 0 };
                w.up.blocked = ans == UpAns::Pending;
                w.up.last_answer_in_call = Some(ans);
                w.logf(|| format!("    upstream polled -> {:?}", ans));
                ans
            });
            match ans {
                UpAns::PendingWake => {
                    w(|w| w.env_wake_depth += 1);
                    cx.waker().wake_by_ref();
                    w(|w| w.env_wake_depth -= 1);
                    Poll::Pending
                }
                UpAns::Pending => {
                    let new = cx.waker().clone();
                    let old = w(|w| w.up.waker.replace(new));
                    drop(old);
                    Poll::Pending
                }
                UpAns::End => {
                    w(|w| w.up.ended = true);
                    Poll::Ready(None)
                }
                UpAns::Err => {
                    let seq = w(|w| {
                        w.up.remaining -= 1;
                        w.up.pulled += 1;
                        w.up.errs_pulled += 1;
                        w.up.next_item += 1;
                        w.up.next_item - 1
                    });
                    let tok = Tok::produce(UP_ERR_ID, seq, true);
                    Poll::Ready(I::error(tok))
                }
                UpAns::ItemGate | UpAns::ItemReady | UpAns::ItemGateFail | UpAns::ItemReadyFail | UpAns::ItemAlt => {
                    let id = w(|w| {
                        let mode = match ans {
                            UpAns::ItemGate | UpAns::ItemGateFail => w.up.modes[0],
                            UpAns::ItemAlt => w.up.modes[2],
                            _ => w.up.modes[1],
                        };
                        if w.up.limit >= 1 {
                            // C09: unfinished futures at this instant (the new one included)
                            let unfinished = w.live_ids.len() + 1;
                            if unfinished > w.up.limit {
                                let n = w.up.limit;
                                w.violate("C09", "limit-exceeded-at-pull", format!("upstream was asked for another item while {} futures are unfinished (limit {})", unfinished - 1, n));
                            }
                            if w.up.ordered {
                                // C16: pulled but not yet yielded at this instant (the new one included)
                                let undelivered = w.children.iter().enumerate().filter(|(i, c)| c.accepted && !w.toks.iter().any(|t| t.id == *i as u32 && t.handed > 0)).count() + 1;
                                if undelivered > w.up.limit {
                                    let n = w.up.limit;
                                    w.violate("C16", "backlog-exceeds-limit-at-pull", format!("upstream handed out an item while {} earlier items were pulled but not yet yielded (limit {})", undelivered - 1, n));
                                }
                            }
                        }
                        let id = w.new_child(mode);
                        w.children[id as usize].fail = matches!(ans, UpAns::ItemGateFail | UpAns::ItemReadyFail);
                        w.children[id as usize].up_pos = w.up.next_item; // position in upstream order
                        if I::RAW && ans == UpAns::ItemAlt && w.up.closure_panic_alt {
                            w.children[id as usize].closure_panics = true;
                        }
                        w.up.remaining -= 1;
                        w.up.pulled += 1;
                        w.up.next_item += 1;
                        // the adapter takes the future over right away (for_each_concurrent: when
                        // its closure has turned the item into a future)
                        if !I::RAW {
                            w.accept(id);
                        }
                        id
                    });
                    Poll::Ready(Some(I::item(id)))
                }
            }
        })
    }

    fn size_hint(&self) -> (usize, Option<usize>) {
        callback(|| {
            w(|w| {
                let r = if w.up.ended { 0 } else { w.up.remaining };
                match w.up.hint {
                    HintShape::Exact => (r, Some(r)),
                    HintShape::Unknown => (0, None),
                    HintShape::Loose => (r.saturating_sub(1), Some(r + 1)),
                    HintShape::LooseMax => (r, Some(usize::MAX)),
                }
            })
        })
    }
}

impl<I: UpItem> Drop for Upstream<I> {
    fn drop(&mut self) {
        callback(|| {
            w(|w| {
                w.up.dropped += 1;
                if w.up.dropped > 1 {
                    w.violate("C06", "upstream-dropped-twice", "the upstream stream was dropped twice");
                }
            })
        })
    }
}
