//! Stateless depth-first exploration of the choice tree by replay (the `explore(prefix)` idiom),
//! distributed over worker threads. Nothing is sampled: every alternative of every choice point
//! within the bounds (operation depth, deviation budget, horizon) is executed.

use std::collections::HashSet;
use std::sync::atomic::{AtomicBool, AtomicU64, AtomicUsize, Ordering};
use std::sync::{Arc, Condvar, Mutex};
use std::time::Instant;

use crate::exec::{run, Cfg, ExecResult};
use crate::world::Violation;

#[derive(Default, Clone)]
pub struct Stats {
    pub executions: u64,
    pub ops_applied: u64,
    pub epilogue_steps: u64,
    pub choice_points: u64,
    pub horizon_hits: u64,
    pub quiesce_runs: u64,
    pub max_top_ops: usize,
    pub states: HashSet<u64>,
    pub outcomes: HashSet<u64>,
    pub nontrivial: u64,
    pub per_cfg: Vec<u64>,
}

impl Stats {
    fn merge(&mut self, o: Stats) {
        self.executions += o.executions;
        self.ops_applied += o.ops_applied;
        self.epilogue_steps += o.epilogue_steps;
        self.choice_points += o.choice_points;
        self.horizon_hits += o.horizon_hits;
        self.quiesce_runs += o.quiesce_runs;
        self.max_top_ops = self.max_top_ops.max(o.max_top_ops);
        self.states.extend(o.states);
        self.outcomes.extend(o.outcomes);
        self.nontrivial += o.nontrivial;
        if self.per_cfg.len() < o.per_cfg.len() {
            self.per_cfg.resize(o.per_cfg.len(), 0);
        }
        for (i, n) in o.per_cfg.iter().enumerate() {
            self.per_cfg[i] += n;
        }
    }
}

#[derive(Clone)]
pub struct Found {
    pub cfg_index: usize,
    pub choices: Vec<u8>,
    pub violation: Violation,
    pub rendered: Vec<String>,
}

pub struct Outcome {
    pub stats: Stats,
    pub found: Vec<Found>,
    pub machinery_error: Option<String>,
    pub timed_out: bool,
    pub samples: Vec<Vec<String>>,
}

struct Shared {
    queue: Mutex<Vec<(usize, Vec<u8>)>>,
    cv: Condvar,
    in_flight: AtomicUsize,
    stop: AtomicBool,
    found: Mutex<Vec<Found>>,
    error: Mutex<Option<String>>,
    execs: AtomicU64,
    samples: Mutex<Vec<Vec<String>>>,
}

fn cost_of(res: &ExecResult, upto: usize) -> usize {
    (0..upto).filter(|&i| (res.costmask[i] >> (res.choices[i] as u64).min(63)) & 1 == 1).count()
}

/// children of an executed prefix: every alternative at every choice point at or after `from`
fn children_of(cfg: &Cfg, res: &ExecResult, from: usize, out: &mut Vec<Vec<u8>>) {
    let mut top_ops_before = res.is_top[..from.min(res.is_top.len())].iter().filter(|t| **t).count();
    // top-level points before `from` that chose Stop cannot exist (Stop ends the history)
    let mut cost_before = cost_of(res, from.min(res.choices.len()));
    for i in from..res.choices.len() {
        let arity = res.arities[i] as usize;
        for alt in 1..arity {
            // the recorded choice at i is 0 (default) since i >= prefix length
            let c = cost_before + ((res.costmask[i] >> (alt as u64).min(63)) & 1) as usize;
            if c > cfg.delta {
                continue;
            }
            if res.is_top[i] && top_ops_before >= cfg.depth {
                continue;
            }
            let mut p = res.choices[..i].to_vec();
            p.push(alt as u8);
            out.push(p);
        }
        if res.is_top[i] {
            top_ops_before += 1;
        }
        cost_before += ((res.costmask[i] >> (res.choices[i] as u64).min(63)) & 1) as usize;
    }
}

struct Worker<'a> {
    cfgs: &'a [Cfg],
    shared: &'a Shared,
    stats: Stats,
    deadline: Option<Instant>,
    split_len: usize,
}

impl<'a> Worker<'a> {
    fn exec(&mut self, ci: usize, prefix: &[u8]) -> Option<ExecResult> {
        let cfg = &self.cfgs[ci];
        let res = run(cfg, prefix, false);
        if let Some(e) = &res.nondet_error {
            *self.shared.error.lock().unwrap() = Some(format!("{} in scenario {} prefix {:?}", e, cfg.name, prefix));
            self.shared.stop.store(true, Ordering::SeqCst);
            return None;
        }
        if res.choices.len() < prefix.len() || res.choices[..prefix.len()] != *prefix {
            *self.shared.error.lock().unwrap() =
                Some(format!("replay diverged in scenario {}: prefix {:?} executed as {:?}", cfg.name, prefix, res.choices));
            self.shared.stop.store(true, Ordering::SeqCst);
            return None;
        }
        self.stats.executions += 1;
        if self.stats.per_cfg.len() <= ci {
            self.stats.per_cfg.resize(ci + 1, 0);
        }
        self.stats.per_cfg[ci] += 1;
        self.stats.ops_applied += res.ops_applied;
        self.stats.epilogue_steps += res.epilogue_steps;
        self.stats.choice_points += res.choices.len() as u64;
        self.stats.max_top_ops = self.stats.max_top_ops.max(res.top_ops);
        if res.horizon_hit {
            self.stats.horizon_hits += 1;
        }
        if res.quiesce_run {
            self.stats.quiesce_runs += 1;
        }
        let mut h = res.state_hash;
        h ^= (ci as u64).wrapping_mul(0x9e3779b97f4a7c15);
        if self.stats.states.insert(h) {
            self.stats.nontrivial += 1;
        }
        self.stats.outcomes.insert(res.outcome_sig ^ (ci as u64).wrapping_mul(0x9e3779b97f4a7c15));
        let n = self.shared.execs.fetch_add(1, Ordering::Relaxed);
        // samples: the very first execution and a few full-depth histories picked by their state hash
        if n == 0 || (res.top_ops >= cfg.depth.min(4) && res.state_hash % 9973 == 1) {
            let mut s = self.shared.samples.lock().unwrap();
            if s.len() < 6 {
                let mut r = vec![format!("scenario {}", cfg.name)];
                r.extend(res.rendered.iter().cloned());
                s.push(r);
            }
        }
        for v in &res.violations {
            if v.prop == cfg.prop {
                let mut f = self.shared.found.lock().unwrap();
                // keep the shortest witness per key
                if let Some(e) = f.iter_mut().find(|e| e.violation.key == v.key && e.cfg_index == ci) {
                    if res.choices.len() < e.choices.len() {
                        e.choices = res.choices.clone();
                        e.violation = v.clone();
                        e.rendered = res.rendered.clone();
                    }
                } else {
                    f.push(Found { cfg_index: ci, choices: res.choices.clone(), violation: v.clone(), rendered: res.rendered.clone() });
                }
            }
        }
        Some(res)
    }

    fn explore(&mut self, ci: usize, prefix: Vec<u8>) {
        if self.shared.stop.load(Ordering::Relaxed) {
            return;
        }
        if let Some(d) = self.deadline {
            if Instant::now() > d {
                self.shared.stop.store(true, Ordering::SeqCst);
                return;
            }
        }
        let Some(res) = self.exec(ci, &prefix) else { return };
        let mut kids = vec![];
        children_of(&self.cfgs[ci], &res, prefix.len(), &mut kids);
        drop(res);
        if prefix.len() < self.split_len {
            // hand the sub-trees to the pool
            let mut q = self.shared.queue.lock().unwrap();
            self.shared.in_flight.fetch_add(kids.len(), Ordering::SeqCst);
            for k in kids {
                q.push((ci, k));
            }
            self.shared.cv.notify_all();
        } else {
            for k in kids {
                self.explore(ci, k);
            }
        }
    }
}

pub fn explore_all(cfgs: &[Cfg], threads: usize, wall_cap_s: f64) -> Outcome {
    let shared = Arc::new(Shared {
        queue: Mutex::new(Vec::new()),
        cv: Condvar::new(),
        in_flight: AtomicUsize::new(0),
        stop: AtomicBool::new(false),
        found: Mutex::new(Vec::new()),
        error: Mutex::new(None),
        execs: AtomicU64::new(0),
        samples: Mutex::new(Vec::new()),
    });
    {
        let mut q = shared.queue.lock().unwrap();
        for ci in (0..cfgs.len()).rev() {
            q.push((ci, vec![]));
        }
        shared.in_flight.store(cfgs.len(), Ordering::SeqCst);
    }
    let deadline = if wall_cap_s > 0.0 { Some(Instant::now() + std::time::Duration::from_secs_f64(wall_cap_s)) } else { None };
    let mut total = Stats::default();
    std::thread::scope(|sc| {
        let mut hs = vec![];
        for _ in 0..threads {
            let shared = shared.clone();
            hs.push(
                std::thread::Builder::new()
                    .stack_size(64 << 20)
                    .spawn_scoped(sc, move || {
                        crate::exec::install_probes();
                        struct PanicGuard<'a>(&'a Shared);
                        impl<'a> Drop for PanicGuard<'a> {
                            fn drop(&mut self) {
                                if std::thread::panicking() {
                                    *self.0.error.lock().unwrap() = Some("an explorer worker panicked outside an execution (machinery bug)".into());
                                    self.0.stop.store(true, Ordering::SeqCst);
                                    self.0.cv.notify_all();
                                }
                            }
                        }
                        let _pg = PanicGuard(&shared);
                        let mut wk = Worker { cfgs, shared: &shared, stats: Stats::default(), deadline, split_len: 3 };
                        loop {
                            let item = {
                                let mut q = shared.queue.lock().unwrap();
                                loop {
                                    if let Some(it) = q.pop() {
                                        break Some(it);
                                    }
                                    if shared.in_flight.load(Ordering::SeqCst) == 0 || shared.stop.load(Ordering::SeqCst) {
                                        break None;
                                    }
                                    q = shared.cv.wait_timeout(q, std::time::Duration::from_millis(20)).unwrap().0;
                                }
                            };
                            let Some((ci, prefix)) = item else { break };
                            wk.explore(ci, prefix);
                            shared.in_flight.fetch_sub(1, Ordering::SeqCst);
                            shared.cv.notify_all();
                        }
                        wk.stats
                    })
                    .unwrap(),
            );
        }
        for h in hs {
            if let Ok(st) = h.join() {
                total.merge(st);
            }
        }
    });
    let timed_out = shared.stop.load(Ordering::SeqCst) && shared.error.lock().unwrap().is_none();
    let found = shared.found.lock().unwrap().clone();
    let machinery_error = shared.error.lock().unwrap().clone();
    let samples = shared.samples.lock().unwrap().clone();
    Outcome { stats: total, found, machinery_error, timed_out, samples }
}
