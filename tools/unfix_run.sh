#!/bin/bash
# usage: unfix_run.sh <fix-commit> <prop> [<prop>...]
# Temporarily takes one "fix:" commit out of /repo's working tree (reverse-applies it), runs the
# named checks - they must report the defect - and restores the tree.
C=$1; shift
cd /repo || exit 2
if ! git diff --quiet; then echo "/repo has uncommitted changes"; exit 2; fi
git show "$C" -- src | git apply -R || { echo "cannot reverse-apply $C"; exit 2; }
rm -rf /verif/target/evidence.keep; cp -r /verif/evidence /verif/target/evidence.keep
trap 'git -C /repo checkout -- . ; rm -rf /verif/evidence; mv /verif/target/evidence.keep /verif/evidence' EXIT
for prop in "$@"; do
  out=$(cd /verif && ./check $prop 2>&1); rc=$?
  echo "UNFIX $C ($(git log -1 --format=%s $C | cut -c1-60)) check $prop -> exit $rc"
  echo "$out" | grep -A3 VIOLATION | head -8 | sed 's/^/      /'
done
