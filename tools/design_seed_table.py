#!/usr/bin/env python3
"""Rewrites the seed table of DESIGN.md §11.5 from seeded/*/meta.json."""
import json, glob, re, os
rows = []
STRENGTH = {
 "C01-a": "`PollHook` (a wake landing while the task waker is being registered) so that SX sees it as well as loom",
 "C03-a": "`DropStored` operation (a clone can be the last owner) and the release snapshot",
 "C04-a": "truncation of an ordered queue is reported under C04",
 "C05-a": "merges with 64-100 sources ending in one poll",
 "C06-b": "a future type without drop glue",
 "C07-a": "a plain-data output type",
 "C07-b": "crash hunt traces every execution, including the determinism probe",
 "C12-b": "in-process hang watchdog (the mutated Drop loops forever)",
 "C13-a": "C01's invariant re-evaluated under C13; non-self-waking populations above the budget",
 "C15-a": "disturbance after a refusal is reported under C15",
 "C18-b": "long fill/drain oscillations (150-400 rounds) to large peaks",
 "C01-d": "`try_lock` on the loom stand-in for the spin lock (hook), `c01_spurious_then_real`",
 "C03-c": "release snapshot compared at the end of every loom schedule",
 "C08-c": "groups with more than 32 slots in use that grow after polls; the tracking allocator never reallocates in place",
 "C09-c": "adapters with limits 33 and 70 (above the first group size and the per-poll budget)",
 "C11-c": "`MergeUnbounded` built through `FromIterator` (`MuIter`), incl. from an empty iterator",
 "C12-c": "task-waker changes (`poll(new task waker)`) in the C12 alphabets (later in all alphabets)",
 "C13-c": "populations of exactly 61 and 123 self-waking children (multiples of the per-poll budget)",
 "C06-c": "a zero-sized future type with a destructor (`FubZ`, `FuZ`, `JaZ`), drops counted",
 "C07-c": "from_iter-style constructors are also fed an iterator with an inexact size hint (`filter`)",
 "C16-c": "limit oracles evaluated at the very moment upstream hands out an item (C16 and C09)",
 "C18-c": "allocation words that fill ordered queues through `push_front` (re-basing in every round)",
 "C05-c": "merge sources that wake themselves in the poll in which they return `None`",
 "C04-e": "`extend` is exercised, with an inexact-size-hint iterator",
 "C03-e": "children that panic in `poll` (`PanicOnce`): the unwinding goes through the crate and is caught by the caller",
 "C05-e": "count-based promptness for zero-sized children (completed <= drops observed at poll return)",
 "C06-e": "join_all/try_join_all with 60-123 inputs finishing in one poll, dropped at every point",
 "C08-e": "`push_front`/`extend` in the C08 alphabets of the ordered queues (later in all alphabets of ordered kinds)",
 "C11-e": "merge sources that wake themselves in the poll in which they yield an item (`J` steps); hang verdicts are universal",
 "C13-e": "free-form histories with slot reuse and stale wakes under the Starve epilogue",
 "C17-e": "iterators that are exact for the first 4/5 and filtered afterwards; collections collected from 50 futures",
 "C14-e": "(in-process hang watchdog, as for C12-b)",
 "C06-f": "iterators that panic part-way through a collecting constructor",
 "C07-f": "join inputs that panic in `poll` (`PanicOnce`) in the C07 scenarios",
 "C11-f": "merge sources woken while a sibling is being polled; executor-style drain (poll only after a task wake)",
 "C12-f": "`YieldGate` children (blocked, then self-waking, then ready) in the C12 alphabets",
 "C14-f": "populations of stale waker-list entries (woken, then removed before the next poll)",
 "C15-f": "refused pushes interleaved with polls and `extend` on full collections",
 "C16-f": "upstream items that wake themselves while completing (`up_modes = [Gate, WakeReady]`)",
 "C17-f": "(refused pushes and `extend`, as for C15-f)",
 "C04-g": "universal alphabet pass: every free-form scenario of every property also gets refused/panicking pushes, `extend` (also with an empty iterator), task-waker changes and `PollHook` as deviations",
 "C11-g": "(universal alphabet pass: `PollHook` in the merge scenarios of C11)",
 "C12-g": "(universal alphabet pass: `extend([])` / `extend` in the C12 alphabets of the ordered queues)",
 "C13-g": "`Ring` children (every poll wakes the next ring member, never itself) as a C13 population; a runaway poll is cut after 2000 polls of one child",
 "C16-g": "a third kind of future from upstream (`ItemAlt`): futures that panic in `poll` among stalled and ready ones in the adapter scenarios of C09/C10/C16",
 "C05-h": "universal child-kind pass: every free-form scenario of every property can also push the kinds of children it does not list (Gate, Ready, WakeReady, Yield1, YieldGate, PanicOnce, DropPanic; for merges I, P, empty, I!, J, ~) as deviations",
 "C12-h": "(universal child-kind pass: children that panic in `poll` in the C12 alphabets)",
 "C08-h": "`MuU`: the unbounded merge over `Unpin` sources that live directly in its slots (a `!Unpin` source has to be boxed, which hides a relocation); scenarios in which the newest group ends first",
 "C09-h": "the closure of `for_each_concurrent` panics for some items (`ItemAlt`); caught by the caller, the adapter is polled on",
 "C13-h": "Starve epilogue with a push before every poll (take an item, add a stream) on merges with two and more groups",
 "C16-h": "`BoZ`: `buffered_ordered` over futures with a zero-sized output (the k-th `()` is attributed to the k-th item pulled)",
 "C08-f": "static Unpin matrix of the five adapters over a `!Unpin` upstream",
}
for d in sorted(glob.glob("/verif/seeded/C*")):
    mp = os.path.join(d, "meta.json")
    if not os.path.exists(mp):
        continue
    m = json.load(open(mp))
    fv = ""
    for p in m["detected_by"][:1]:
        lines = [x.strip() for x in m["results"][p]["first_violation"][1:3]]
        fv = "; ".join(lines)
    fv = re.sub(r"0x[0-9a-f]{6,}", "0x…", fv).replace("|", "/")
    rows.append("| %s | %s | %s | %s | %s |" % (m["id"], m["what"], ", ".join(m["detected_by"]) or "**MISSED**", fv[:170], STRENGTH.get(m["id"], "–")))
table = "| seed | change | caught by (quick tier) | first violation reported by the property's own check | machinery strengthened for it |\n|---|---|---|---|---|\n" + "\n".join(rows)
p = "/verif/DESIGN.md"
s = open(p).read()
a, b = "<!-- SEEDS-BEGIN -->", "<!-- SEEDS-END -->"
assert a in s and b in s
s = s[:s.index(a) + len(a)] + "\n" + table + "\n" + s[s.index(b):]
open(p, "w").write(s)
print(len(rows), "seeds in table")
