import sys, json, subprocess
pid=sys.argv[1]; variant=sys.argv[2]
needs=json.load(open('/verif/seeded/needs.json'))
prev=[(k,v['what']) for k,v in sorted(needs.items()) if k.startswith(pid+'-')]
excl="; ".join("(%d) %s"%(i+1,w) for i,(k,w) in enumerate(prev))
steer=("Several earlier, independent attempts already used the following ideas, so do NOT reuse any of them or a close variant: "+excl+". "
"Pick a different code site AND a different mechanism. Bugs that only show for a particular *kind of input or usage* are especially welcome, because simple test harnesses tend to fix those dimensions: properties of the future/stream/output types (zero-sized, no drop glue, large, Unpin or not), properties of the iterator passed to a constructor, capacities/limits at, just below or beyond the crate's internal constants, particular alternations of API calls (push_front / push_back / extend / try_push / panicking push / collect, polling again after the end), the identity of the task waker changing between polls, children that wake themselves or each other at a particular moment, or re-entrancy from a waker.")
txt=subprocess.check_output(["python3","/tmp/agent_prompt.py",pid,variant],text=True)
txt=txt.replace("Keep the change small (typically 1-15 lines).", "IMPORTANT - "+steer+"\nKeep the change small (typically 1-15 lines).")
print(txt)
