//! One execution: build a real subject, apply the operations the chooser selects, let the monitors
//! look at every result, run the epilogue, tear everything down, evaluate the end-of-run oracles.

use std::collections::VecDeque;
use std::task::{Context, Waker};

use crate::subjects::*;
use crate::world::*;

#[derive(Clone, Debug, PartialEq, Eq, Hash)]
pub struct ChildSpec {
    pub mode: Mode,
    pub fail: bool,
    pub script: Vec<Step>,
    pub omega: bool,
    pub wake_on_end: bool,
    pub drop_panic: bool,
}
impl ChildSpec {
    pub fn fut(mode: Mode) -> Self {
        ChildSpec { mode, fail: false, script: vec![], omega: false, wake_on_end: false, drop_panic: false }
    }
    pub fn failing(mode: Mode) -> Self {
        ChildSpec { mode, fail: true, script: vec![], omega: false, wake_on_end: false, drop_panic: false }
    }
    pub fn stream(s: &str) -> Self {
        let omega = s == "w";
        // a trailing '!' = the stream wakes itself in the poll in which it returns None
        // a trailing '~' = the stream's destructor panics when the crate drops it
        let drop_panic = s.ends_with('~');
        let s = s.trim_end_matches('~');
        let wake_on_end = s.ends_with('!');
        let s = s.trim_end_matches('!');
        let script = if omega {
            vec![]
        } else {
            s.chars().map(|c| if c == 'I' { Step::Item } else if c == 'J' { Step::ItemWake } else { Step::Pend }).collect()
        };
        ChildSpec { mode: Mode::Stream, fail: false, script, omega, wake_on_end, drop_panic }
    }
    pub fn render(&self) -> String {
        if self.mode == Mode::Stream {
            if self.omega {
                "Iω".into()
            } else {
                let s: String = self.script.iter().map(|s| match s { Step::Item => 'I', Step::ItemWake => 'J', Step::Pend => 'P' }).collect();
                format!("{}E{}{}", s, if self.wake_on_end { "!" } else { "" }, if self.drop_panic { "~" } else { "" })
            }
        } else if self.fail {
            format!("{:?}!Err", self.mode)
        } else {
            format!("{:?}", self.mode)
        }
    }
}

pub mod ops {
    pub const PUSH: u32 = 1 << 0;
    pub const PUSH_FRONT: u32 = 1 << 1;
    pub const POLL: u32 = 1 << 2;
    pub const POLL_NEW: u32 = 1 << 3;
    pub const COMPLETE: u32 = 1 << 4;
    pub const WAKE: u32 = 1 << 5;
    pub const STALE_WAKE: u32 = 1 << 6;
    pub const FEED_UP: u32 = 1 << 7;
    pub const MOVE: u32 = 1 << 8;
    pub const DROP_SUBJECT: u32 = 1 << 9;
    pub const WAKER_POOL: u32 = 1 << 10;
    pub const PANIC_PUSH: u32 = 1 << 11;
    pub const PUSH_WHEN_FULL: u32 = 1 << 12;
    pub const UNLEASH: u32 = 1 << 13;
    pub const POLL_HOOK: u32 = 1 << 14;
    pub const EXTEND: u32 = 1 << 15;
    pub const DROP_ON_WAKE: u32 = 1 << 16;
    /// `extend` with an iterator that yields nothing
    pub const EXTEND_EMPTY: u32 = 1 << 17;
}

#[derive(Clone, Copy, PartialEq, Eq, Debug, Hash)]
pub enum Epilogue {
    /// drop the subject right away (every prefix is a cancellation point)
    DropNow,
    /// complete everything and poll until the end; everything accepted must come out
    Drain,
    /// only from states in which every held child is pending: poll until a quiet Pending
    Quiesce,
    /// keep polling (nothing is completed) until every woken victim has been polled or the
    /// starvation bound is exceeded
    Starve,
}

#[derive(Clone, Debug)]
pub struct Cfg {
    pub prop: &'static str,
    pub name: String,
    pub kind: Kind,
    pub prefill: Vec<ChildSpec>,
    pub specs: Vec<ChildSpec>,
    pub ops: u32,
    /// ops in this set cost one deviation
    pub costly: u32,
    pub depth: usize,
    pub delta: usize,
    pub epilogue: Epilogue,
    pub seed: Option<usize>,
    pub up_len: usize,
    pub hint: HintShape,
    /// join family: polls allowed after the first Ready
    pub post_ready_polls: usize,
    /// C17: record size hints at the stop state and through the epilogue
    pub check_hints: bool,
    /// max choice points per execution
    pub horizon: usize,
    /// per-child operations are offered only for these prefilled children (None = all) and for
    /// every child pushed during the history
    pub focus: Option<Vec<u32>>,
    /// self-waking children start dormant (see Op::Unleash)
    pub dormant: bool,
    pub up_modes: [Mode; 3],
    /// polls performed right after construction, before the explored history starts
    pub pre_polls: usize,
    /// how many cloned wakers the environment may hold at once
    pub pool_max: usize,
    /// `focus` restricts the per-child operations for *all* children, not only the prefilled ones
    pub focus_strict: bool,
    /// from_iter-style constructors get an iterator whose size hint is inexact (lower bound 0)
    pub inexact_iter: bool,
    /// the iterator handed to the constructor panics after yielding this many items
    pub iter_panic_at: Option<usize>,
    /// drain like an executor: after a Pending on which the task waker was not invoked, nobody polls again
    pub executor_drain: bool,
    /// PollHook is only offered for children with an id below this
    pub hook_max: u32,
    /// children drop the waker they stored when they complete / are dropped
    pub release_wakers: bool,
    /// pushes of `specs[i]` with i at or above this are deviations (child kinds added by the universal pass)
    pub costly_specs_from: usize,
    /// Starve epilogue: a source that ends at once is pushed before every poll (take an item, add a stream)
    pub starve_push: bool,
    /// for_each_concurrent: `ItemAlt` items make the closure panic
    pub up_closure_panic: bool,
}

impl Cfg {
    pub fn new(prop: &'static str, kind: Kind) -> Cfg {
        Cfg {
            prop,
            name: format!("{:?}", kind),
            kind,
            prefill: vec![],
            specs: vec![],
            ops: ops::POLL,
            costly: 0,
            depth: 4,
            delta: 8,
            epilogue: Epilogue::DropNow,
            seed: None,
            up_len: 0,
            hint: HintShape::Exact,
            post_ready_polls: 0,
            check_hints: false,
            horizon: 400,
            focus: None,
            dormant: false,
            up_modes: [Mode::Gate, Mode::Ready, Mode::Ready],
            hook_max: u32::MAX,
            release_wakers: false,
            costly_specs_from: usize::MAX,
            starve_push: false,
            up_closure_panic: false,
            pre_polls: 0,
            pool_max: 2,
            focus_strict: false,
            inexact_iter: false,
            iter_panic_at: None,
            executor_drain: false,
        }
    }
    pub fn limit(&self) -> usize {
        match self.kind {
            Kind::Bu(n) | Kind::Bo(n) | Kind::Tbu(n) | Kind::Tbo(n) | Kind::Fec(n) | Kind::BoZ(n) => n,
            _ => usize::MAX,
        }
    }
}

#[derive(Clone, Debug, PartialEq, Eq)]
pub enum Op {
    Stop,
    Push(usize, PushHow),
    PanicPush(usize, PushHow),
    /// `extend` with two futures of the given spec (ordered queues)
    Extend2(usize),
    /// `extend` with an iterator that yields nothing
    Extend0,
    Poll(bool),
    /// poll with a new task waker; the waker of the child is invoked while the collection clones
    /// (registers) that task waker
    PollHook(u32),
    Complete(u32),
    Feed(u32),
    Wake(u32),
    StaleWake(u32),
    FeedUp,
    Unleash,
    /// the next task-waker invocation outside a poll drops the collection from inside the notification
    ArmDropOnWake,
    Move,
    DropSubject,
    CloneWaker(u32),
    DropStored(u32),
    PoolWake(usize),
    PoolWakeOwned(usize),
    PoolDrop(usize),
}

pub struct ExecResult {
    pub choices: Vec<u8>,
    pub arities: Vec<u8>,
    pub costmask: Vec<u64>,
    pub is_top: Vec<bool>,
    pub violations: Vec<Violation>,
    pub state_hash: u64,
    pub ops_applied: u64,
    pub epilogue_steps: u64,
    pub rendered: Vec<String>,
    pub log: Vec<String>,
    pub nondet_error: Option<String>,
    pub horizon_hit: bool,
    pub panicked: Option<String>,
    pub outcome_sig: u64,
    pub top_ops: usize,
    pub quiesce_run: bool,
}

/// reference model + per-execution driver state
pub(crate) struct Run<'a> {
    cfg: &'a Cfg,
    pub(crate) subj: Option<Box<dyn Subject>>,
    cur_waker: usize,
    /// ids accepted and not yet yielded, in queue order (ordered kinds) or any order
    model: VecDeque<u32>,
    /// adapter: futures pulled from upstream and not yet yielded, in upstream order
    pub(crate) pool: Vec<Waker>,
    first_ready_seen: bool,
    polls_after_ready: usize,
    rendered: Vec<String>,
    ops_applied: u64,
    epilogue_steps: u64,
    pub(crate) last_out_kind: u8,
    hints: Vec<(usize, (usize, Option<usize>), &'static str)>,
    yielded_count: usize,
    merge_next_seq: Vec<(u32, u32)>,
    up_errs_forwarded: u32,
    outcome: u64,
    first_failed: Option<u32>,
    done_seen: bool,
    top_ops: usize,
    quiesce_run: bool,
    /// refused or panicking pushes so far (C15: they must not disturb the held futures)
    refusals: u32,
}

fn fnv(h: &mut u64, x: u64) {
    *h ^= x;
    *h = h.wrapping_mul(0x100000001b3);
}

impl<'a> Run<'a> {
    fn render_op(&self, op: &Op) -> String {
        match op {
            Op::Push(i, how) => format!("push{}({})", if *how == PushHow::Front { "_front" } else { "" }, self.cfg.specs[*i].render()),
            Op::PanicPush(i, how) => {
                format!("panicking push{}({})", if *how == PushHow::Front { "_front" } else { "" }, self.cfg.specs[*i].render())
            }
            Op::Extend2(i) => format!("extend([{0}, {0}])", self.cfg.specs[*i].render()),
            Op::Extend0 => "extend([])".to_string(),
            Op::Poll(new) => format!("poll({})", if *new { "new task waker" } else { "same task waker" }),
            o => format!("{:?}", o),
        }
    }

    fn live(&self, w: &World, id: u32) -> bool {
        let c = &w.children[id as usize];
        c.accepted && c.drops == 0 && !c.completed
    }

    fn menu(&self) -> Vec<(Op, bool)> {
        let cfg = self.cfg;
        let mut m: Vec<(Op, bool)> = vec![(Op::Stop, false)];
        let alive = self.subj.is_some();
        let costly = |f: u32| cfg.costly & f != 0;
        w(|w| {
            if alive {
                if cfg.ops & ops::POLL != 0 {
                    let allowed = !cfg.kind.is_join() && !matches!(cfg.kind, Kind::Fec(_))
                        || !self.first_ready_seen
                        || self.polls_after_ready < cfg.post_ready_polls;
                    if allowed {
                        m.push((Op::Poll(false), false));
                        if cfg.ops & ops::POLL_NEW != 0 {
                            m.push((Op::Poll(true), costly(ops::POLL_NEW)));
                        }
                    }
                }
                if cfg.ops & ops::PUSH != 0 {
                    let full = match cfg.kind.bound() {
                        Some(n) => self.running(w) >= n,
                        None => false,
                    };
                    if cfg.ops & ops::EXTEND != 0 && !cfg.specs.is_empty() {
                        let room = match cfg.kind.bound() {
                            Some(n) => n.saturating_sub(self.running(w)),
                            None => usize::MAX,
                        };
                        // (after a destructor panic the crate's own count of free slots is no longer defined)
                        if room >= 2 && (w.drop_panics == 0 || cfg.kind.bound().is_none()) {
                            m.push((Op::Extend2(0), costly(ops::EXTEND)));
                        }

                    }
                    if cfg.ops & ops::EXTEND_EMPTY != 0 && cfg.kind.is_ordered() && cfg.kind.is_collection() {
                        m.push((Op::Extend0, costly(ops::EXTEND_EMPTY)));
                    }
                    if !full {
                        for i in 0..cfg.specs.len() {
                            // relay children need somebody to relay to
                            if cfg.specs[i].mode == Mode::Relay && self.relay_target(w).is_none() {
                                continue;
                            }
                            let dear = i > 0 && costly(ops::PUSH) || i >= cfg.costly_specs_from;
                            m.push((Op::Push(i, PushHow::Back), dear));
                            if cfg.ops & ops::PUSH_FRONT != 0 {
                                m.push((Op::Push(i, PushHow::Front), dear));
                            }
                        }
                    } else if !cfg.specs.is_empty() {
                        if cfg.ops & ops::PUSH_WHEN_FULL != 0 {
                            m.push((Op::Push(0, PushHow::Back), costly(ops::PUSH_WHEN_FULL)));
                            if cfg.ops & ops::PUSH_FRONT != 0 {
                                m.push((Op::Push(0, PushHow::Front), costly(ops::PUSH_WHEN_FULL)));
                            }
                        }
                        if cfg.ops & ops::PANIC_PUSH != 0 {
                            m.push((Op::PanicPush(0, PushHow::Back), costly(ops::PANIC_PUSH)));
                            if cfg.ops & ops::PUSH_FRONT != 0 {
                                m.push((Op::PanicPush(0, PushHow::Front), costly(ops::PANIC_PUSH)));
                            }
                        }
                    }
                }
                if cfg.ops & ops::MOVE != 0 {
                    m.push((Op::Move, costly(ops::MOVE)));
                }
                if cfg.ops & ops::UNLEASH != 0 && w.dormant {
                    m.push((Op::Unleash, costly(ops::UNLEASH)));
                }
                if cfg.ops & ops::DROP_SUBJECT != 0 {
                    m.push((Op::DropSubject, costly(ops::DROP_SUBJECT)));
                }
                if cfg.ops & ops::DROP_ON_WAKE != 0 && !w.drop_on_wake_armed && !w.drop_on_wake_fired {
                    m.push((Op::ArmDropOnWake, costly(ops::DROP_ON_WAKE)));
                }
                if cfg.ops & ops::FEED_UP != 0 && w.up.blocked && !w.up.fed {
                    m.push((Op::FeedUp, costly(ops::FEED_UP)));
                }
            }
            for (i, c) in w.children.iter().enumerate() {
                let id = i as u32;
                if let Some(fo) = &cfg.focus {
                    if (cfg.focus_strict || i < cfg.prefill.len()) && !fo.contains(&id) {
                        continue;
                    }
                }
                let live = c.accepted && c.drops == 0 && !c.completed;
                if alive && live && cfg.ops & ops::COMPLETE != 0 {
                    match c.mode {
                        Mode::Gate | Mode::Relay | Mode::YieldInf | Mode::YieldGate | Mode::Ring if !c.released => {
                            m.push((Op::Complete(id), costly(ops::COMPLETE)))
                        }
                        Mode::Stream if !c.omega && c.last_answer == Ans::Pending && !c.fed => {
                            m.push((Op::Feed(id), costly(ops::COMPLETE)))
                        }
                        Mode::Stream if c.omega && !c.released => m.push((Op::Complete(id), costly(ops::COMPLETE))),
                        _ => {}
                    }
                }
                if c.waker.is_some() {
                    if live {
                        if cfg.ops & ops::WAKE != 0 {
                            m.push((Op::Wake(id), costly(ops::WAKE)));
                        }
                        if alive && cfg.ops & ops::POLL_HOOK != 0 && id < cfg.hook_max {
                            m.push((Op::PollHook(id), costly(ops::POLL_HOOK)));
                        }
                    } else if cfg.ops & ops::STALE_WAKE != 0 {
                        m.push((Op::StaleWake(id), costly(ops::STALE_WAKE)));
                    }
                    if cfg.ops & ops::WAKER_POOL != 0 && self.pool.len() < cfg.pool_max {
                        m.push((Op::CloneWaker(id), costly(ops::WAKER_POOL)));
                    }
                    if cfg.ops & ops::WAKER_POOL != 0 {
                        m.push((Op::DropStored(id), costly(ops::WAKER_POOL)));
                    }
                }
            }
            if cfg.ops & ops::WAKER_POOL != 0 {
                for i in 0..self.pool.len() {
                    m.push((Op::PoolWake(i), costly(ops::WAKER_POOL)));
                    m.push((Op::PoolWakeOwned(i), costly(ops::WAKER_POOL)));
                    m.push((Op::PoolDrop(i), costly(ops::WAKER_POOL)));
                }
            }
        });
        m
    }

    /// futures currently running inside the subject according to the model
    fn running(&self, w: &World) -> usize {
        self.model.iter().filter(|&&id| !w.children[id as usize].completed).count()
    }

    fn relay_target(&self, w: &World) -> Option<u32> {
        // prefer a finished child whose waker is still around (stale), else a live one
        let mut live = None;
        for (i, c) in w.children.iter().enumerate() {
            if c.waker.is_some() {
                if c.completed {
                    return Some(i as u32);
                } else if live.is_none() {
                    live = Some(i as u32);
                }
            }
        }
        live
    }

    pub(crate) fn new_child(&self, spec: &ChildSpec) -> u32 {
        w(|w| {
            let tgt = if spec.mode == Mode::Relay { self.relay_target(w) } else { None };
            let id = w.new_child(spec.mode);
            let c = &mut w.children[id as usize];
            c.fail = spec.fail;
            c.script = spec.script.clone();
            c.omega = spec.omega;
            c.wake_on_end = spec.wake_on_end;
            c.drop_panic = spec.drop_panic;
            c.relay_target = tgt.unwrap_or(id);
            id
        })
    }

    // ---------------------------------------------------------------------------------------------
    pub(crate) fn apply(&mut self, op: &Op) {
        // re-entrancy hook: while an environment operation runs, the task waker may drop the subject
        SUBJ_PTR.with(|p| p.set(&mut self.subj as *mut Option<Box<dyn Subject>> as usize));
        DROP_HOOK.with(|h| h.set(Some(drop_subject_from_waker)));
        self.apply_inner(op);
        DROP_HOOK.with(|h| h.set(None));
        SUBJ_PTR.with(|p| p.set(0));
        if w(|w| w.drop_on_wake_fired) && self.subj.is_none() {
            w(|w| w.subject_alive = false);
        }
    }

    fn apply_inner(&mut self, op: &Op) {
        self.ops_applied += 1;
        let r = self.render_op(op);
        w(|w| w.logf(|| format!("op {}", r)));
        self.rendered.push(r);
        match op {
            Op::Stop => {}
            Op::Push(i, how) => self.do_push(*i, *how, false),
            Op::PanicPush(i, how) => self.do_push(*i, *how, true),
            Op::Extend2(i) => {
                let spec = &self.cfg.specs[*i];
                let a = self.new_child(spec);
                let b = self.new_child(spec);
                if self.subj.as_mut().unwrap().extend(&[a, b]).is_some() {
                    for id in [a, b] {
                        w(|w| w.accept(id));
                        self.model.push_back(id);
                    }
                }
            }
            Op::Extend0 => {
                let _ = self.subj.as_mut().unwrap().extend(&[]);
            }
            Op::Poll(new) => self.do_poll(*new),
            Op::PollHook(c) => {
                let next = w(|w| w.next_task_waker + 1);
                w(|w| w.tw_hook = Some((next, *c)));
                self.do_poll(true);
                w(|w| w.tw_hook = None);
            }
            Op::Complete(id) => {
                w(|w| w.children[*id as usize].released = true);
                let wk = clone_child_waker(*id);
                if let Some(wk) = wk {
                    invoke_child_waker(&wk);
                    in_crate(|| drop(wk));
                }
            }
            Op::Feed(id) => {
                w(|w| w.children[*id as usize].fed = true);
                let wk = clone_child_waker(*id);
                if let Some(wk) = wk {
                    invoke_child_waker(&wk);
                    in_crate(|| drop(wk));
                }
            }
            Op::Wake(id) | Op::StaleWake(id) => {
                let wk = clone_child_waker(*id);
                if let Some(wk) = wk {
                    invoke_child_waker(&wk);
                    in_crate(|| drop(wk));
                }
            }
            Op::FeedUp => {
                let wk = w(|w| {
                    w.up.fed = true;
                    w.env_wake_depth += 1;
                    w.up.waker.take()
                });
                if let Some(wk) = wk {
                    wk.wake_by_ref();
                    let back = w(|w| if w.up.waker.is_none() { w.up.waker = Some(wk); None } else { Some(wk) });
                    drop(back);
                }
                w(|w| w.env_wake_depth -= 1);
            }
            Op::ArmDropOnWake => w(|w| w.drop_on_wake_armed = true),
            Op::Unleash => {
                let ids: Vec<u32> = w(|w| {
                    w.dormant = false;
                    (0..w.children.len() as u32)
                        .filter(|&i| {
                            let c = &w.children[i as usize];
                            c.accepted && c.drops == 0 && !c.completed && (c.mode == Mode::YieldInf || c.mode == Mode::Ring || c.omega)
                        })
                        .collect()
                });
                for id in ids {
                    if let Some(wk) = clone_child_waker(id) {
                        invoke_child_waker(&wk);
                        in_crate(|| drop(wk));
                    }
                }
            }
            Op::Move => {
                let s = self.subj.take().unwrap();
                self.subj = Some(s.relocate());
            }
            Op::DropSubject => self.drop_subject(),
            Op::CloneWaker(id) => {
                if let Some(wk) = clone_child_waker(*id) {
                    EXTRA_WAKERS.with(|e| e.borrow_mut().push(wk.data() as usize));
                    self.pool.push(wk);
                }
            }
            Op::DropStored(id) => {
                let wk = w(|w| w.children[*id as usize].waker.take());
                in_crate(|| drop(wk));
            }
            Op::PoolWake(i) => {
                let wk = in_crate(|| self.pool[*i].clone());
                invoke_child_waker(&wk);
                in_crate(|| drop(wk));
            }
            Op::PoolWakeOwned(i) => {
                let wk = self.pool.remove(*i);
                EXTRA_WAKERS.with(|e| {
                    e.borrow_mut().remove(*i);
                });
                invoke_child_waker_owned(wk);
            }
            Op::PoolDrop(i) => {
                let wk = self.pool.remove(*i);
                EXTRA_WAKERS.with(|e| {
                    e.borrow_mut().remove(*i);
                });
                in_crate(|| drop(wk));
            }
        }
        self.post_op();
    }

    /// outputs produced inside the subject and not handed out yet (ordered queues park them)
    pub(crate) fn parked(&self) -> usize {
        if self.cfg.kind.is_collection() {
            self.model.len().saturating_sub(w(|w| self.running(w)))
        } else {
            0
        }
    }

    pub(crate) fn drop_subject(&mut self) {
        if let Some(s) = self.subj.take() {
            w(|w| w.call_id += 1);
            // a child's destructor may panic: the caller catches it, like any other panic
            let r = std::panic::catch_unwind(std::panic::AssertUnwindSafe(|| in_crate(|| drop(s))));
            if let Err(e) = r {
                if e.downcast_ref::<ChildPanic>().is_none() {
                    std::panic::resume_unwind(e);
                }
            }
            w(|w| w.subject_alive = false);
        }
    }

    pub(crate) fn do_push(&mut self, i: usize, how: PushHow, panicking: bool) {
        let cfg = self.cfg;
        let spec = &cfg.specs[i];
        let id = self.new_child(spec);
        let expect_accept = match cfg.kind.bound() {
            Some(n) => w(|w| self.running(w)) < n,
            None => true,
        };
        let before = self.subj.as_ref().unwrap().obs();
        let res = self.subj.as_mut().unwrap().push(id, how, panicking);
        match res {
            PushRes::Accepted => {
                w(|w| w.accept(id));
                match how {
                    PushHow::Back => self.model.push_back(id),
                    PushHow::Front => self.model.push_front(id),
                }
                if !expect_accept {
                    w(|w| {
                        w.violate("C15", "push-accepted-beyond-capacity", format!("{:?}: push accepted although {} futures are already running", cfg.kind, cfg.kind.bound().unwrap()))
                    });
                }
            }
            PushRes::Refused(back) => {
                self.refusals += 1;
                w(|w| {
                    w.children[id as usize].refused = true;
                    if back != id {
                        w.violate("C15", "refusal-returned-other-future", format!("try_push refused future {} but returned future {}", id, back));
                    }
                    if expect_accept {
                        w.violate("C15", "push-refused-below-capacity", format!("{:?}: try_push refused although fewer than capacity futures are running", cfg.kind));
                    }
                });
                let after = self.subj.as_ref().unwrap().obs();
                if format!("{:?}", before) != format!("{:?}", after) {
                    w(|w| w.violate("C15", "refusal-changed-observers", format!("refused push changed observers: {:?} -> {:?}", before, after)));
                }
            }
            PushRes::Panicked => {
                self.refusals += 1;
                w(|w| {
                    w.children[id as usize].refused = true;
                    if expect_accept {
                        w.violate("C15", "push-panicked-below-capacity", format!("{:?}: push panicked although fewer than capacity futures are running", cfg.kind));
                    }
                });
                let after = self.subj.as_ref().unwrap().obs();
                if format!("{:?}", before) != format!("{:?}", after) {
                    w(|w| w.violate("C15", "panic-changed-observers", format!("panicking push changed observers: {:?} -> {:?}", before, after)));
                }
            }
            PushRes::Unsupported => unreachable!(),
        }
    }

    pub(crate) fn do_poll(&mut self, new: bool) {
        if new {
            self.cur_waker = w(|w| {
                w.next_task_waker += 1;
                w.next_task_waker
            });
        }
        let id = self.cur_waker;
        w(|w| {
            w.now += 1;
            w.cpoll_id += 1;
            w.call_id += 1;
            w.cpoll_depth = 1;
            w.last_poll_waker = id;
            w.last_poll_woken = false;
            w.last_poll_start = w.now;
            w.completed_in_call.clear();
            w.child_polls_in_call = 0;
            w.up.polled_in_call = false;
            w.up.last_answer_in_call = None;
        });
        let waker = task_waker(id);
        let mut cx = Context::from_waker(&waker);
        let subj = self.subj.as_mut().unwrap();
        let out = match std::panic::catch_unwind(std::panic::AssertUnwindSafe(|| subj.poll(&mut cx))) {
            Ok(o) => o,
            Err(e) => {
                if e.downcast_ref::<ChildPanic>().is_some() {
                    // a child panicked and the unwinding went through the crate: the caller catches it
                    // (like a runtime would) and carries on; the poll told us nothing
                    w(|w| {
                        w.cpoll_depth = 0;
                        w.last_poll_pending = false;
                        w.logf(|| "  -> (unwound: a child panicked)".to_string());
                    });
                    self.last_out_kind = 8;
                    return;
                }
                std::panic::resume_unwind(e)
            }
        };
        w(|w| {
            w.cpoll_depth = 0;
            w.last_poll_pending = matches!(out, PollOut::Pending);
        });
        if self.first_ready_seen {
            self.polls_after_ready += 1;
        }
        self.after_poll(out);
    }

    fn after_poll(&mut self, out: PollOut) {
        let cfg = self.cfg;
        // generic per-call oracles
        w(|w| {
            let done: Vec<u32> = w.completed_in_call.clone();
            for id in done {
                if w.children[id as usize].drops != 1 && !w.children[id as usize].no_drop_glue {
                    w.violate(
                        "C05",
                        "finished-child-not-released",
                        format!("child {} completed during this poll but had not been dropped when the poll returned", id),
                    );
                }
            }
            if w.z_drops < w.z_completed {
                let (c, d) = (w.z_completed, w.z_drops);
                w.violate("C05", "finished-zero-sized-child-not-released", format!("{} zero-sized children have completed but only {} drops of zero-sized children were observed when the poll returned", c, d));
            }
            let held = w.held() as u64;
            let cp = w.cpoll_id;
            let starving: Option<(usize, u64)> = w
                .live_ids
                .iter()
                .map(|&i| (i as usize, &w.children[i as usize]))
                .filter_map(|(i, c)| c.victim_wake_cpoll.map(|(c0, h0)| (i, cp - c0, h0.max(held))))
                .find(|(_, waited, h)| *waited > 4 * h + 8)
                .map(|(i, waited, _)| (i, waited));
            if let Some((i, waited)) = starving {
                w.violate(
                    "C13",
                    "starvation",
                    format!("child {} has been woken {} polls ago and has still not been polled ({} children held)", i, waited, held),
                );
            }
            if w.spin_hit {
                w.violate("C13", "poll-does-not-return", "a single poll call polled one and the same child more than 2000 times and was still going (children that keep each other or themselves woken)");
            } else if w.child_polls_in_call > 512 * (held + w.completed_in_call.len() as u64 + 1) {
                let n = w.child_polls_in_call;
                w.violate("C13", "unbounded-work-per-poll", format!("a single poll performed {} child polls with {} children held", n, held));
            }
        });
        match out {
            PollOut::Pending => {
                self.last_out_kind = 1;
                w(|w| w.logf(|| "  -> Pending".to_string()));
                self.on_pending();
            }
            PollOut::Done => {
                self.last_out_kind = 2;
                self.done_seen = true;
                w(|w| w.logf(|| "  -> Ready(None)".to_string()));
                self.on_done();
            }
            PollOut::Item(r) => {
                self.last_out_kind = 3;
                self.yielded_count += 1;
                self.on_item(r);
            }
            PollOut::Vec(v) => {
                self.last_out_kind = 4;
                self.on_vec(v, false);
            }
            PollOut::TryVec(Ok(v)) => {
                self.last_out_kind = 5;
                self.on_vec(v, true);
            }
            PollOut::TryVec(Err(t)) => {
                self.last_out_kind = 6;
                let first = !self.first_ready_seen;
                self.first_ready_seen = true;
                if let Some((id, _seq, err)) = receive_tok(t, "try_join_all Err") {
                    fnv(&mut self.outcome, 0xE000 + id as u64);
                    w(|w| {
                        w.logf(|| format!("  -> Ready(Err(from input {}))", id));
                        if !err {
                            w.violate("C07", "ok-value-as-error", format!("try_join_all returned input {}'s Ok value as the error", id));
                        }
                        if first {
                            if let Some(ff) = self.first_failed_child(w) {
                                if ff != id {
                                    w.violate("C07", "not-first-error", format!("try_join_all returned the error of input {} but input {} was observed to fail first", id, ff));
                                }
                            }
                        }
                    });
                }
            }
            PollOut::Unit => {
                self.last_out_kind = 7;
                self.first_ready_seen = true;
                self.done_seen = true;
                w(|w| w.logf(|| "  -> Ready(())".to_string()));
                self.on_done();
            }
        }
        let _ = cfg;
    }

    fn first_failed_child(&self, w: &World) -> Option<u32> {
        // completion order = order of token serials of error tokens
        w.toks.iter().find(|t| t.err && t.id != UP_ERR_ID).map(|t| t.id)
    }

    fn inflight(&self, w: &World) -> usize {
        // adapter futures pulled and not yet delivered (token not handed out)
        w.children
            .iter()
            .enumerate()
            .filter(|(i, c)| c.accepted && !self.delivered(w, *i as u32))
            .count()
    }
    fn delivered(&self, w: &World, id: u32) -> bool {
        if matches!(self.cfg.kind, Kind::Fec(_)) {
            return w.children[id as usize].completed;
        }
        w.toks.iter().any(|t| t.id == id && t.handed > 0)
    }

    fn on_pending(&mut self) {
        let cfg = self.cfg;
        let empty = self.model.is_empty();
        w(|w| {
            if cfg.kind.is_collection() && empty {
                w.violate("C02", "pending-while-empty", format!("{:?}: poll_next returned Pending although nothing is held", cfg.kind));
            }
            if cfg.kind.is_merge() {
                let live: Vec<&Child> = w.live_ids.iter().map(|&i| &w.children[i as usize]).collect();
                let some_pending = live.iter().any(|c| matches!(c.last_answer, Ans::Pending | Ans::None));
                if !some_pending && !w.last_poll_woken {
                    if live.is_empty() {
                        w.violate("C11", "pending-with-no-source", "merge returned Pending although every source has ended");
                    } else {
                        w.violate("C11", "pending-while-no-source-pending", "merge returned Pending (without waking its task) although no held source is pending");
                    }
                }
            }
            if cfg.kind.is_adapter() {
                let n = cfg.limit();
                let inflight = self.inflight(w);
                let up_pending = w.up.polled_in_call && matches!(w.up.last_answer_in_call, Some(UpAns::Pending) | Some(UpAns::PendingWake));
                if n >= 1 && !(inflight >= n || w.up.ended || up_pending) {
                    w.violate(
                        "C09",
                        "not-work-conserving",
                        format!("{:?}: returned Pending with {} of {} slots used, upstream not ended and not answering Pending in this call", cfg.kind, inflight, n),
                    );
                }
                if w.up.ended && inflight == 0 {
                    w.violate("C10", "pending-after-exhaustion", format!("{:?}: Pending although upstream is exhausted and nothing is in flight", cfg.kind));
                }
            }
        });
    }

    fn on_done(&mut self) {
        let cfg = self.cfg;
        let nonempty = !self.model.is_empty();
        w(|w| {
            if cfg.kind.is_collection() && nonempty {
                w.violate("C02", "none-while-holding", format!("{:?}: poll_next returned None while {} accepted future(s) have not been yielded", cfg.kind, self.model.len()));
                if cfg.kind.is_ordered() {
                    let front = self.model[0];
                    w.violate("C04", "queue-ended-before-front", format!("{:?}: the reference queue still holds future {} at its front, but poll_next returned None", cfg.kind, front));
                }
                if self.refusals > 0 {
                    w.violate("C15", "refusal-disturbed-held-futures", format!("{:?}: after a refused/panicking push, poll_next returned None while {} accepted future(s) are still held", cfg.kind, self.model.len()));
                }
            }
            if cfg.kind.is_merge() {
                let live = w.live_ids.len();
                if live > 0 {
                    w.violate("C11", "none-while-source-live", format!("merge returned None while {} source(s) have not ended", live));
                }
            }
            if cfg.kind.is_adapter() {
                let inflight = self.inflight(w);
                if !w.up.ended || inflight > 0 {
                    let e = w.up.ended;
                    w.violate(
                        "C10",
                        "ended-early",
                        format!("{:?}: finished although upstream ended = {} and {} future(s) are in flight or parked", cfg.kind, e, inflight),
                    );
                }
                if matches!(cfg.kind, Kind::Fec(_)) {
                    let mut calls = w.closure_calls.clone();
                    let n = calls.len();
                    calls.sort();
                    calls.dedup();
                    if calls.len() != n || n as u32 != w.up.pulled {
                        let p = w.up.pulled;
                        w.violate("C10", "closure-call-count", format!("for_each_concurrent: closure called {} times ({} distinct) for {} items", n, calls.len(), p));
                    }
                }
            }
        });
    }

    fn on_item(&mut self, r: Result<Tok, Tok>) {
        let cfg = self.cfg;
        let (tok, was_err) = match r {
            Ok(t) => (t, false),
            Err(t) => (t, true),
        };
        let Some((id, seq, err)) = receive_tok(tok, "poll_next") else { return };
        fnv(&mut self.outcome, ((id as u64) << 8) | seq as u64);
        w(|w| w.logf(|| format!("  -> Ready(Some({}{}#{}))", if was_err { "Err " } else { "" }, id, seq)));
        if err != was_err {
            w(|w| w.violate("C07", "ok-err-confused", format!("output of child {} changed between Ok and Err", id)));
        }
        if cfg.kind.is_collection() {
            let pos = self.model.iter().position(|&x| x == id);
            match pos {
                None => w(|w| {
                    w.violate("C02", "yielded-unknown-or-twice", format!("{:?}: yielded the output of future {} which is not held (never accepted or already yielded)", cfg.kind, id));
                    if w.children.get(id as usize).map_or(false, |c| c.refused) {
                        w.violate("C15", "refused-future-was-kept", format!("{:?}: future {} was refused by a push and yet its output was yielded", cfg.kind, id));
                    }
                }),
                Some(p) => {
                    if cfg.kind.is_ordered() && p != 0 {
                        let front = self.model[0];
                        let refusals = self.refusals;
                        w(|w| {
                            w.violate("C04", "out-of-queue-order", format!("{:?}: yielded future {} although future {} is ahead of it in the queue", cfg.kind, id, front));
                            if refusals > 0 {
                                w.violate("C15", "refusal-disturbed-held-futures", format!("{:?}: after a refused/panicking push the yield order changed (future {} before {})", cfg.kind, id, front));
                            }
                        });
                    }
                    self.model.remove(p);
                }
            }
        } else if cfg.kind.is_merge() {
            let e = match self.merge_next_seq.iter_mut().find(|(s, _)| *s == id) {
                Some(e) => e,
                None => {
                    self.merge_next_seq.push((id, 0));
                    self.merge_next_seq.last_mut().unwrap()
                }
            };
            if e.1 != seq {
                let exp = e.1;
                w(|w| w.violate("C11", "source-order-broken", format!("merge yielded item #{} of source {} where #{} was next", seq, id, exp)));
            }
            e.1 = seq + 1;
        } else if cfg.kind.is_adapter() {
            if id == UP_ERR_ID {
                self.up_errs_forwarded += 1;
                return;
            }
            if cfg.kind.is_ordered() {
                // must be the earliest pulled future that has not been delivered yet
                w(|w| {
                    let mypos = w.children[id as usize].up_pos;
                    let earlier = w.children.iter().enumerate().find(|(i, c)| {
                        c.accepted && c.up_pos < mypos && !w.toks.iter().any(|t| t.id == *i as u32 && t.handed > 0)
                    });
                    if let Some((i, _)) = earlier {
                        w.violate("C04", "adapter-out-of-order", format!("{:?}: yielded the output of future #{} before that of the earlier future #{}", cfg.kind, id, i));
                    }
                });
            }
        }
    }

    fn on_vec(&mut self, v: Vec<Tok>, _is_try: bool) {
        let cfg = self.cfg;
        let first = !self.first_ready_seen;
        self.first_ready_seen = true;
        let n_inputs = cfg.prefill.len();
        let len = v.len();
        let mut ids = vec![];
        for (i, t) in v.into_iter().enumerate() {
            if let Some((id, _s, err)) = receive_tok(t, "join result element") {
                ids.push(id);
                fnv(&mut self.outcome, ((i as u64) << 32) | id as u64);
                if first && id as usize != i {
                    w(|w| w.violate("C04", "join-index-mismatch", format!("{:?}: element {} of the result is the output of input {}", cfg.kind, i, id)));
                }
                if err {
                    w(|w| w.violate("C07", "error-value-in-ok-vec", format!("the error value of input {} appeared inside the Ok vector", id)));
                }
            }
        }
        w(|w| {
            w.logf(|| format!("  -> Ready(vec of inputs {:?})", ids));
            if first {
                if len != n_inputs {
                    w.violate("C07", "join-wrong-length", format!("{:?}: first result has {} elements for {} inputs", cfg.kind, len, n_inputs));
                }
                let unresolved = w.children.iter().filter(|c| c.accepted && !c.completed).count();
                if unresolved > 0 {
                    w.violate("C07", "join-early", format!("{:?}: resolved while {} input(s) had not resolved", cfg.kind, unresolved));
                }
            }
        });
    }

    // ---------------------------------------------------------------------------------------------
    pub(crate) fn post_op(&mut self) {
        let cfg = self.cfg;
        // C01: no lost wake-up
        w(|w| {
            if self.subj.is_some() && w.last_poll_pending && !w.last_poll_woken {
                let start = w.last_poll_start;
                let mut owed: Vec<u32> = w
                    .live_ids
                    .iter()
                    .copied()
                    .filter(|&i| {
                        let c = &w.children[i as usize];
                        c.owed && c.accept_time < start
                    })
                    .collect();
                owed.sort();
                if !owed.is_empty() && w.child_polls_in_call > 0 {
                    let n = w.child_polls_in_call;
                    w.violate(
                        "C13",
                        "stopped-early-without-waking-task",
                        format!("{:?}: the last poll polled {} child(ren), returned Pending with ready child(ren) {:?} still un-polled, and did not wake its task: the rest is forgotten", cfg.kind, n, &owed[..owed.len().min(4)]),
                    );
                }
                if !owed.is_empty() && cfg.kind.is_merge() {
                    w.violate(
                        "C11",
                        "sleeps-on-unpolled-source",
                        format!("{:?}: the merge returned Pending without waking its task while source(s) {:?} are queued and un-polled: an executor sleeps now and their items are never yielded", cfg.kind, &owed[..owed.len().min(4)]),
                    );
                }
                if !owed.is_empty() {
                    let lw = w.last_poll_waker;
                    w.violate(
                        "C01",
                        "lost-wakeup",
                        format!(
                            "{:?}: the last poll returned Pending, child(ren) {:?} are pushed-or-woken and un-polled, and task waker #{} of that poll has not been invoked",
                            cfg.kind, owed, lw
                        ),
                    );
                }
            }
        });
        // C15: observers
        if let Some(s) = self.subj.as_ref() {
            if cfg.kind.is_collection() || cfg.kind.is_merge() {
                let o = s.obs();
                let k = if cfg.kind.is_merge() { w(|w| w.held()) } else { self.model.len() };
                w(|w| {
                    if let Some(l) = o.len {
                        if l != k {
                            w.violate("C15", "len-mismatch", format!("{:?}: len() = {} but accepted - yielded = {}", cfg.kind, l, k));
                        }
                    }
                    if let Some(e) = o.is_empty {
                        if e != (k == 0) {
                            w.violate("C15", "is_empty-mismatch", format!("{:?}: is_empty() = {} with {} held", cfg.kind, e, k));
                        }
                    }
                    if cfg.kind.is_collection() {
                        if let Some(h) = o.size_hint {
                            if h != (k, Some(k)) {
                                w.violate("C15", "size_hint-mismatch", format!("{:?}: size_hint() = {:?} with {} held", cfg.kind, h, k));
                            }
                        }
                        if let Some(t) = o.is_terminated {
                            if t != (k == 0) {
                                w.violate("C15", "is_terminated-mismatch", format!("{:?}: is_terminated() = {} with {} held", cfg.kind, t, k));
                            }
                        }
                    }
                    if let (Some(c), Some(n)) = (o.capacity, cfg.kind.bound()) {
                        if c != n {
                            w.violate("C15", "capacity-changed", format!("{:?}: capacity() = {} but was constructed with {}", cfg.kind, c, n));
                        }
                    }
                    if let (Kind::Fub(n) | Kind::FubIter(n), Some(l)) = (cfg.kind, o.len) {
                        if l > n {
                            w.violate("C15", "holds-more-than-capacity", format!("{:?} holds {} futures", cfg.kind, l));
                        }
                    }
                });
            }
        }
        // C16: backpressure of the ordered adapters
        if let Kind::Bo(n) | Kind::Tbo(n) | Kind::BoZ(n) = cfg.kind {
            w(|w| {
                let inflight = self.inflight(w);
                if n >= 1 && inflight > n {
                    w.violate("C16", "backlog-exceeds-limit", format!("{:?}: {} upstream items pulled but not yet yielded", cfg.kind, inflight));
                }
            });
        }
        // C09 (1): concurrency limit
        if cfg.kind.is_adapter() && cfg.limit() >= 1 {
            w(|w| {
                let unfinished = w.live_ids.len();
                if unfinished > cfg.limit() {
                    w.violate("C09", "limit-exceeded", format!("{:?}: {} unfinished futures held", cfg.kind, unfinished));
                }
            });
        }
        // C18: bounded types never allocate after construction
        if cfg.kind.alloc_free() {
            let a = crate_allocs();
            if a > 0 {
                w(|w| w.violate("C18", "allocation-after-construction", format!("{:?}: {} heap allocation(s) inside the crate after construction", cfg.kind, a)));
            }
        }
        // C03 (c)
        w(|w| {
            if w.child_polls_after_subject_drop > 0 {
                w.violate("C03", "child-polled-after-collection-drop", "a child was polled after the collection had been dropped");
            }
        });
    }

    fn state_hash(&self) -> u64 {
        let mut h: u64 = 0xcbf29ce484222325;
        w(|w| {
            fnv(&mut h, self.subj.is_some() as u64);
            fnv(&mut h, self.last_out_kind as u64);
            fnv(&mut h, (self.cur_waker == w.last_poll_waker) as u64);
            fnv(&mut h, w.last_poll_woken as u64);
            for c in &w.children {
                let x = (c.mode as u64)
                    | (c.accepted as u64) << 4
                    | (c.completed as u64) << 5
                    | ((c.drops.min(3)) as u64) << 6
                    | (c.released as u64) << 8
                    | (c.owed as u64) << 9
                    | (c.waker.is_some() as u64) << 10
                    | (c.fed as u64) << 11
                    | (c.fail as u64) << 12
                    | (c.refused as u64) << 13
                    | ((c.cursor as u64) << 16)
                    | ((c.yielded as u64) << 24)
                    | ((c.last_answer as u64) << 28);
                fnv(&mut h, x);
            }
            for &m in &self.model {
                fnv(&mut h, 0x1000 + m as u64);
            }
            for t in &w.toks {
                fnv(&mut h, (t.handed as u64) << 1 | (t.drops as u64) << 3 | 1);
            }
            fnv(&mut h, w.up.remaining as u64 | (w.up.ended as u64) << 16 | (w.up.blocked as u64) << 17 | (w.up.fed as u64) << 18);
            fnv(&mut h, self.pool.len() as u64);
        });
        h
    }

    fn record_hint(&mut self, tag: &'static str) {
        if !self.cfg.check_hints {
            return;
        }
        if let Some(s) = self.subj.as_ref() {
            if let Some(h) = s.obs().size_hint {
                self.hints.push((self.yielded_count, h, tag));
            }
        }
    }

    /// is every held child pending (C14 hypothesis)?
    fn all_pending(&self) -> bool {
        w(|w| {
            w.children.iter().all(|c| {
                if !(c.accepted && c.drops == 0 && !c.completed) {
                    return true;
                }
                match c.mode {
                    Mode::Gate => !c.released,
                    Mode::Stream => !c.omega && matches!(c.script.get(c.cursor), Some(Step::Pend)) && !c.fed,
                    _ => false,
                }
            })
        })
    }

    fn epilogue(&mut self) {
        let cfg = self.cfg;
        match cfg.epilogue {
            Epilogue::DropNow => {}
            Epilogue::Drain => {
                if self.subj.is_none() {
                    return;
                }
                // make every child complete at its next poll, and wake all of them
                let ids: Vec<u32> = w(|w| {
                    w.draining = true;
                    w.up.force = Some(UpForce::Drain);
                    if w.up.hint == HintShape::Unknown {
                        w.up.remaining = w.up.remaining.min(2);
                    }
                    (0..w.children.len() as u32).filter(|&i| {
                        let c = &w.children[i as usize];
                        c.accepted && c.drops == 0 && !c.completed
                    }).collect()
                });
                let wakers: Vec<Waker> = ids.into_iter().filter_map(clone_child_waker).collect();
                for k in wakers {
                    invoke_child_waker(&k);
                    in_crate(|| drop(k));
                }
                if w(|w| w.up.blocked) {
                    self.apply_quiet(&Op::FeedUp);
                }
                let budget = 4 * (w(|w| w.held()) + w(|w| w.up.remaining) + self.model.len()) + 8;
                let mut finished = false;
                for _ in 0..budget {
                    self.epilogue_steps += 1;
                    self.do_poll(false);
                    self.post_op();
                    self.record_hint("drain");
                    if matches!(self.last_out_kind, 2 | 4 | 5 | 6 | 7) {
                        finished = true;
                        break;
                    }
                    if cfg.executor_drain && self.last_out_kind == 1 && !w(|w| w.last_poll_woken) {
                        // every source has been fed and woken; the task was not woken by this poll: an
                        // executor would now sleep forever
                        break;
                    }
                }
                let left = self.model.len();
                w(|w| {
                    if !finished {
                        let p = match cfg.kind {
                            k if k.is_merge() => "C11",
                            k if k.is_adapter() => "C10",
                            k if k.is_join() => "C07",
                            _ => "C02",
                        };
                        w.violate(p, "does-not-finish", format!("{:?}: every child was completed and woken, yet {} polls did not reach the end ({} outputs missing)", cfg.kind, budget, left));
                    } else if cfg.kind.is_collection() && left > 0 {
                        w.violate("C02", "accepted-never-yielded", format!("{:?}: {} accepted future(s) were never yielded", cfg.kind, left));
                    }
                    if self.refusals > 0 && ((cfg.kind.is_collection() && (!finished || left > 0)) || (cfg.kind.is_merge() && !finished)) {
                        w.violate("C15", "refusal-disturbed-held-futures", format!("{:?}: after a refused/panicking push, {} held future(s) were never yielded", cfg.kind, left));
                    }
                    if cfg.kind.is_collection() && cfg.kind.is_ordered() && left > 0 {
                        w.violate("C04", "queue-item-never-yielded", format!("{:?}: the yielded sequence stops short of the reference queue ({} item(s) missing)", cfg.kind, left));
                    }
                    if finished && cfg.kind.is_merge() {
                        // union: every item every source produced came out exactly once
                        let lost = w.toks.iter().filter(|t| t.handed != 1).count();
                        if lost > 0 {
                            w.violate("C11", "item-lost", format!("merge: {} item(s) produced by sources were not yielded exactly once", lost));
                        }
                    }
                    if finished && cfg.kind.is_adapter() && !matches!(cfg.kind, Kind::Fec(_)) {
                        let lost = w.toks.iter().filter(|t| t.handed != 1).count();
                        if lost > 0 {
                            w.violate("C10", "output-or-error-lost", format!("{:?}: {} output(s)/upstream error(s) were not forwarded exactly once", cfg.kind, lost));
                        }
                    }
                });
            }
            Epilogue::Starve => {
                if self.subj.is_none() {
                    return;
                }
                let bound = 4 * w(|w| w.held()) + 8 + 2 + if cfg.starve_push { 16 } else { 0 };
                for _ in 0..bound {
                    let waiting = w(|w| {
                        w.children.iter().any(|c| {
                            c.accepted && c.drops == 0 && !c.completed && c.victim_wake_cpoll.is_some() && c.mode != Mode::YieldInf && c.mode != Mode::Ring && !c.omega
                        })
                    });
                    if !waiting || matches!(self.last_out_kind, 2 | 4 | 5 | 6 | 7) {
                        break;
                    }
                    self.epilogue_steps += 1;
                    if cfg.starve_push && !cfg.specs.is_empty() {
                        self.do_push(cfg.specs.len() - 1, PushHow::Back, false);
                        self.post_op();
                    }
                    self.do_poll(false);
                    self.post_op();
                }
            }
            Epilogue::Quiesce => {
                if self.subj.is_none() || !self.all_pending() {
                    return;
                }
                self.quiesce_run = true;
                w(|w| w.up.force = Some(UpForce::Pending));
                let held = w(|w| w.held()) + if cfg.kind.is_adapter() { 1 } else { 0 };
                let mut noisy = 0usize;
                let mut quiet = false;
                for _ in 0..(held + 2 + self.model.len() + 2) {
                    self.epilogue_steps += 1;
                    self.do_poll(false);
                    self.post_op();
                    match self.last_out_kind {
                        1 => {
                            if w(|w| w.last_poll_woken) {
                                noisy += 1;
                                if noisy >= held + 2 {
                                    break;
                                }
                            } else {
                                quiet = true;
                                break;
                            }
                        }
                        3 => {}
                        _ => {
                            quiet = true;
                            break;
                        }
                    }
                }
                if !quiet {
                    w(|w| {
                        w.violate(
                            "C14",
                            "busy-spin",
                            format!("{:?}: all {} held children are pending and nobody wakes them, yet {} consecutive polls returned Pending with the task woken", cfg.kind, held, noisy),
                        )
                    });
                }
            }
        }
    }

    fn apply_quiet(&mut self, op: &Op) {
        let n = self.rendered.len();
        self.apply(op);
        self.rendered.truncate(n);
        self.ops_applied -= 1;
    }

    fn check_hints(&mut self) {
        let total = self.yielded_count;
        let kind = self.cfg.kind;
        for (at, (lo, hi), tag) in self.hints.drain(..) {
            let rest = total - at;
            if lo > rest || hi.map_or(false, |h| h < rest) {
                w(|w| {
                    w.violate(
                        "C17",
                        if lo > rest { "lower-bound-too-high" } else { "upper-bound-too-low" },
                        format!("{:?}: size_hint() = ({}, {:?}) ({}), but {} item(s) were still yielded afterwards", kind, lo, hi, tag, rest),
                    )
                });
            }
        }
    }

    pub(crate) fn teardown(&mut self) {
        self.drop_subject();
        let pool = std::mem::take(&mut self.pool);
        EXTRA_WAKERS.with(|e| e.borrow_mut().clear());
        for k in pool {
            in_crate(|| drop(k));
        }
        let ws: Vec<Waker> = w(|w| w.children.iter_mut().filter_map(|c| c.waker.take()).collect());
        for k in ws {
            in_crate(|| drop(k));
        }
        let uw = w(|w| w.up.waker.take());
        drop(uw);
        // end-of-run oracles
        let finished_join_or_stream = self.done_seen || self.first_ready_seen;
        let _ = finished_join_or_stream;
        w(|w| {
            // C06
            for i in 0..w.children.len() {
                let c = &w.children[i];
                if c.no_drop_glue {
                    continue;
                }
                if c.drops != 1 {
                    let (d, m, acc) = (c.drops, c.mode, c.accepted);
                    // a RawItem never turned into a future by for_each_concurrent has no future to drop
                    if matches!(self.cfg.kind, Kind::Fec(_)) && !w.closure_calls.contains(&(i as u32)) {
                        continue;
                    }
                    w.violate(
                        "C06",
                        if d == 0 { "child-leaked" } else { "child-dropped-twice" },
                        format!("child {} ({:?}, accepted = {}) was dropped {} times by the end of the run", i, m, acc, d),
                    );
                }
            }
            for i in 0..w.toks.len() {
                let t = &w.toks[i];
                if t.plain {
                    continue;
                }
                if t.drops != 1 {
                    let (d, id, h) = (t.drops, t.id, t.handed);
                    w.violate(
                        "C06",
                        if d == 0 { "output-leaked" } else { "output-dropped-twice" },
                        format!("the output of child {} (handed out {} time(s)) was dropped {} times by the end of the run", id, h, d),
                    );
                }
            }
            if w.z_drops != w.z_created {
                let (c, d) = (w.z_created, w.z_drops);
                w.violate("C06", if d < c { "zero-sized-child-leaked" } else { "zero-sized-child-dropped-twice" }, format!("{} zero-sized futures were given to the crate, {} drops of them were observed by the end of the run", c, d));
            }
            if self.cfg.kind.is_adapter() && w.up.dropped != 1 {
                let d = w.up.dropped;
                w.violate("C06", "upstream-drop-count", format!("the upstream stream was dropped {} times", d));
            }
            // C03: every block released exactly once
            for b in &w.blocks {
                if b.released != 1 {
                    let (base, r) = (b.base, b.released);
                    let key = if r == 0 { "block-leaked" } else { "block-released-twice" };
                    w.violations.push(Violation {
                        prop: "C03",
                        key: key.into(),
                        msg: format!("waker block {:#x} was released {} times by the end of the run", base, r),
                    });
                }
            }
        });
        free_deferred();
    }
}

// ------------------------------------------------------------------------------------------------
// H2 probe callbacks

fn probe_alloc(base: *mut u8, size: usize) {
    callback(|| {
        w(|w| {
            w.blocks.push(Block { snapshot: Vec::new(), base: base as usize, size, align: 0, released: 0 });
        })
    })
}
fn probe_release(base: *mut u8, size: usize, align: usize) -> bool {
    callback(|| {
        w(|w| {
            let b = base as usize;
            let mut held_wakers: Vec<usize> = w.children.iter().filter_map(|c| c.waker.as_ref().map(|k| k.data() as usize)).collect();
            held_wakers.extend(EXTRA_WAKERS.with(|e| e.borrow().clone()));
            match w.blocks.iter_mut().rev().find(|x| x.base == b && x.released == 0) {
                None => {
                    if w.blocks.iter().any(|x| x.base == b) {
                        w.violate("C03", "block-released-twice", format!("waker block {:#x} released a second time", b));
                        if let Some(x) = w.blocks.iter_mut().rev().find(|x| x.base == b) {
                            x.released += 1;
                        }
                        // never let a second real free happen
                        return true;
                    }
                    w.violate("C03", "unknown-block-released", format!("release of unknown block {:#x}", b));
                    true
                }
                Some(x) => {
                    x.released += 1;
                    x.align = align;
                    if x.size != size {
                        let s = x.size;
                        w.violate("C03", "release-size-mismatch", format!("block {:#x} allocated with {} bytes, released with {}", b, s, size));
                    }
                    if held_wakers.iter().any(|&p| p >= b && p < b + size) {
                        w.violate("C03", "released-while-waker-outstanding", format!("waker block {:#x} released while the environment still holds a waker into it", b));
                    }
                    if w.defer_free {
                        // remember the released block's bytes: any later write into it is found at the
                        // end of the run (the memory stays mapped and intact, so a buggy late access is
                        // observed by the probes instead of crashing the explorer)
                        let snap = unsafe { std::slice::from_raw_parts(base as *const u8, size) }.to_vec();
                        if let Some(x) = w.blocks.iter_mut().rev().find(|x| x.base == b) {
                            x.snapshot = snap;
                        }
                    }
                    w.defer_free
                }
            }
        })
    })
}
fn probe_vtable(kind: u8, item: *const (), header: *const ()) {
    callback(|| {
        w(|w| {
            w.vtable_calls += 1;
            let p = item as usize;
            let found = w.blocks.iter().rev().find(|b| p >= b.base && p < b.base + b.size).map(|b| (b.base, b.released));
            let names = ["clone", "wake", "wake_by_ref", "drop"];
            match found {
                None => w.violate("C03", "waker-outside-any-block", format!("{} on a waker whose item {:#x} lies in no known waker block", names[kind as usize & 3], p)),
                Some((base, rel)) => {
                    if rel > 0 {
                        w.violate("C03", "use-after-release", format!("{} on a waker into block {:#x} after the block was released", names[kind as usize & 3], base));
                    }
                    if header as usize != base {
                        w.violate("C03", "wrong-header", format!("waker item {:#x} resolves to header {:#x}, block starts at {:#x}", p, header as usize, base));
                    }
                }
            }
        })
    })
}

thread_local! {
    static SUBJ_PTR: std::cell::Cell<usize> = const { std::cell::Cell::new(0) };
}
/// called from the task waker (see world::tw_wake) while an environment wake is being applied and no
/// poll of the subject is running: the driver does not touch `subj` during such an operation
fn drop_subject_from_waker() {
    let p = SUBJ_PTR.with(|p| p.get());
    if p != 0 {
        let slot = unsafe { &mut *(p as *mut Option<Box<dyn Subject>>) };
        if let Some(s) = slot.take() {
            w(|w| w.call_id += 1);
            // a task waker must not panic: a child destructor that panics is caught right here
            let r = std::panic::catch_unwind(std::panic::AssertUnwindSafe(|| in_crate(|| drop(s))));
            if let Err(e) = r {
                if e.downcast_ref::<ChildPanic>().is_none() {
                    std::panic::resume_unwind(e);
                }
            }
            w(|w| w.subject_alive = false);
        }
    }
}

thread_local! {
    /// crash hunt (./check): with SX_TRACE_DIR set, every thread writes the execution it is about
    /// to run into its own file first, so that a crash of the process can be attributed
    static TRACE: std::cell::RefCell<Option<Option<std::fs::File>>> = const { std::cell::RefCell::new(None) };
    pub static QUIET: std::cell::Cell<bool> = const { std::cell::Cell::new(false) };
    /// data pointers of child wakers held by the harness outside `children[].waker` (pool)
    pub static EXTRA_WAKERS: std::cell::RefCell<Vec<usize>> = const { std::cell::RefCell::new(Vec::new()) };
}

pub fn install_probes() {
    futures_buffered::verif::install(probe_alloc, probe_release, probe_vtable);
}

fn free_deferred() {
    let blocks: Vec<(usize, usize, usize, u32, Vec<u8>)> = w(|w| w.blocks.drain(..).map(|b| (b.base, b.size, b.align, b.released, b.snapshot)).collect());
    for (base, size, align, released, snap) in blocks {
        if released >= 1 && align != 0 && !cfg!(miri) {
            let bytes = unsafe { std::slice::from_raw_parts(base as *const u8, size) };
            if let Some(off) = (0..size.min(snap.len())).find(|&i| bytes[i] != snap[i]) {
                let v = bytes[off];
                w(|w| {
                    w.violations.push(Violation {
                        prop: "C03",
                        key: "write-after-release".into(),
                        msg: format!("byte {} of waker block {:#x} ({} bytes) was overwritten with {:#04x} after the block had been released", off, base, size, v),
                    })
                });
            }
            unsafe { std::alloc::dealloc(base as *mut u8, std::alloc::Layout::from_size_align(size, align).unwrap()) };
        }
    }
}

// ------------------------------------------------------------------------------------------------

pub fn reset_world(prefix: &[u8], horizon: usize, log_on: bool) {
    w(|w| {
        *w = World::new();
        w.prefix = prefix.to_vec();
        w.horizon = horizon;
        w.log_on = log_on;
    });
    EXTRA_WAKERS.with(|e| e.borrow_mut().clear());
    reset_crate_allocs();
}

/// Run one execution of `cfg` under the choice prefix `prefix`.
/// In-process hang watchdog: every thread publishes the execution it is running; `watchdog` (started
/// by `sx check`) reports an execution that does not return and ends the process with status 3.
pub struct Slot {
    pub what: Option<(String, Vec<u8>, std::time::Instant)>,
}
pub static SLOTS: std::sync::Mutex<Vec<std::sync::Arc<std::sync::Mutex<Slot>>>> = std::sync::Mutex::new(Vec::new());
thread_local! {
    static MY_SLOT: std::sync::Arc<std::sync::Mutex<Slot>> = {
        let s = std::sync::Arc::new(std::sync::Mutex::new(Slot { what: None }));
        SLOTS.lock().unwrap().push(s.clone());
        s
    };
}
pub fn watchdog(limit_s: u64) {
    std::thread::spawn(move || loop {
        std::thread::sleep(std::time::Duration::from_millis(500));
        let slots: Vec<_> = SLOTS.lock().unwrap().clone();
        for s in slots {
            let g = s.lock().unwrap();
            if let Some((name, ch, t0)) = &g.what {
                if t0.elapsed().as_secs() >= limit_s {
                    let ch: Vec<String> = ch.iter().map(|c| c.to_string()).collect();
                    println!("SX-HANG {}|{}", name, ch.join(","));
                    use std::io::Write;
                    let _ = std::io::stdout().flush();
                    std::process::exit(3);
                }
            }
        }
    });
}

fn trace_execution(cfg: &Cfg, prefix: &[u8]) {
    MY_SLOT.with(|s| s.lock().unwrap().what = Some((cfg.name.clone(), prefix.to_vec(), std::time::Instant::now())));
    TRACE.with(|t| {
        let mut t = t.borrow_mut();
        if t.is_none() {
            *t = Some(std::env::var("SX_TRACE_DIR").ok().and_then(|d| {
                let id = format!("{:?}", std::thread::current().id()).replace(|c: char| !c.is_ascii_digit(), "");
                std::fs::File::create(format!("{}/w{}", d, id)).ok()
            }));
        }
        if let Some(Some(f)) = t.as_ref() {
            use std::os::unix::fs::FileExt;
            let ch: Vec<String> = prefix.iter().map(|c| c.to_string()).collect();
            let line = format!("{}|{}\n{:200}", cfg.name, ch.join(","), "");
            let _ = f.write_at(line.as_bytes(), 0);
        }
    });
}

pub fn run(cfg: &Cfg, prefix: &[u8], log_on: bool) -> ExecResult {
    trace_execution(cfg, prefix);
    QUIET.with(|q| q.set(true));
    let r = run_inner(cfg, prefix, log_on);
    QUIET.with(|q| q.set(false));
    MY_SLOT.with(|s| s.lock().unwrap().what = None);
    r
}

pub(crate) fn begin<'a>(cfg: &'a Cfg, prefix: &[u8], log_on: bool) -> Run<'a> {
    reset_world(prefix, cfg.horizon, log_on);
    w(|w| {
        w.up.remaining = cfg.up_len;
        w.up.hint = cfg.hint;
        w.up.is_try = cfg.kind.is_try();
        w.up.modes = cfg.up_modes;
        w.release_wakers = cfg.release_wakers;
        w.up.closure_panic_alt = cfg.up_closure_panic;
        w.up.limit = if cfg.kind.is_adapter() && !matches!(cfg.kind, Kind::Fec(_)) && cfg.limit() != usize::MAX { cfg.limit() } else { 0 };
        w.up.ordered = matches!(cfg.kind, Kind::Bo(_) | Kind::Tbo(_) | Kind::BoZ(_));
        w.dormant = cfg.dormant;
    });
    Run {
        cfg,
        subj: None,
        cur_waker: 1,
        model: VecDeque::new(),
        pool: vec![],
        first_ready_seen: false,
        polls_after_ready: 0,
        rendered: vec![],
        ops_applied: 0,
        epilogue_steps: 0,
        last_out_kind: 0,
        hints: vec![],
        yielded_count: 0,
        merge_next_seq: vec![],
        up_errs_forwarded: 0,
        outcome: 0xcbf29ce484222325,
        first_failed: None,
        done_seen: false,
        top_ops: 0,
        quiesce_run: false,
        refusals: 0,
    }
}

impl<'a> Run<'a> {
    /// build the subject with its prefilled children; false if the constructor panicked
    pub(crate) fn construct(&mut self) -> bool {
        let cfg = self.cfg;
        let pre: Vec<u32> = cfg.prefill.iter().map(|s| self.new_child(s)).collect();
        let by_ctor = matches!(
            cfg.kind,
            Kind::FubIter(_) | Kind::FuIter(_) | Kind::FobIter(_) | Kind::FoIter(_) | Kind::Mb(_) | Kind::Mu(_) | Kind::MuIter(_) | Kind::MuU(_) | Kind::Ja(_) | Kind::Tja(_) | Kind::JaP(_) | Kind::TjaP(_) | Kind::JaN(_) | Kind::TjaN(_) | Kind::JaZ(_)
        );
        ITER_PANIC_AT.with(|c| c.set(cfg.iter_panic_at));
        ITER_PANICKED.with(|c| c.set(false));
        let subj = build(cfg.kind, if by_ctor { &pre } else { &[] }, cfg.inexact_iter);
        ITER_PANIC_AT.with(|c| c.set(None));
        match subj {
            None => {
                if ITER_PANICKED.with(|c| c.get()) {
                    // the caller's own iterator panicked: construction is abandoned, which is fine; what
                    // matters is that everything it had already handed over is dropped exactly once
                    w(|w| w.logf(|| "the iterator panicked during construction".to_string()));
                    return false;
                }
                w(|w| w.violate("C15", "constructor-panicked", format!("constructing {:?} panicked", cfg.kind)));
                return false;
            }
            Some(s) => self.subj = Some(s),
        }
        if let Some(s) = cfg.seed {
            self.subj.as_mut().unwrap().seed(s);
        }
        if by_ctor {
            for &id in &pre {
                w(|w| w.accept(id));
                self.model.push_back(id);
            }
        } else {
            for &id in &pre {
                let r = self.subj.as_mut().unwrap().push(id, PushHow::Back, false);
                assert!(r == PushRes::Accepted, "prefill push refused");
                w(|w| w.accept(id));
                self.model.push_back(id);
            }
        }
        if !matches!(cfg.kind, Kind::Mu(_) | Kind::MuIter(_) | Kind::MuU(_) | Kind::FuNew | Kind::FuCap(_) | Kind::FuIter(_) | Kind::FoNew | Kind::FoCap(_) | Kind::FoIter(_)) {
            reset_crate_allocs();
        }
        true
    }
}

fn run_inner(cfg: &Cfg, prefix: &[u8], log_on: bool) -> ExecResult {
    let mut run = begin(cfg, prefix, log_on);
    let body = std::panic::catch_unwind(std::panic::AssertUnwindSafe(|| {
        if !run.construct() {
            return;
        }
        run.post_op();
        for _ in 0..cfg.pre_polls {
            run.do_poll(false);
            run.post_op();
        }
        // history
        loop {
            if run.top_ops >= cfg.depth {
                break;
            }
            let menu = run.menu();
            assert!(menu.len() <= 64, "menu too wide: {}", menu.len());
            let mut mask: u64 = 0;
            for (i, (_, c)) in menu.iter().enumerate() {
                if *c {
                    mask |= 1 << i;
                }
            }
            let k = choose(menu.len(), mask, true);
            if k == 0 {
                break;
            }
            run.top_ops += 1;
            let op = menu[k].0.clone();
            run.apply(&op);
            if w(|w| w.horizon_hit) {
                break;
            }
        }
    }));
    let state_hash = run.state_hash();
    let mut panicked = None;
    if let Err(e) = body {
        panicked = Some(panic_msg(&e));
    }
    if panicked.is_none() {
        let ep = std::panic::catch_unwind(std::panic::AssertUnwindSafe(|| {
            run.record_hint("stop");
            run.epilogue();
            run.check_hints();
        }));
        if let Err(e) = ep {
            panicked = Some(panic_msg(&e));
        }
    }
    if log_on {
        // replay mode: say what is known before tear-down, in case tear-down itself never returns
        use std::io::Write;
        for v in w(|w| w.violations.clone()) {
            println!("PRE-TEARDOWN [{}] {}: {}", v.prop, v.key, v.msg);
        }
        let _ = std::io::stdout().flush();
    }
    let td = std::panic::catch_unwind(std::panic::AssertUnwindSafe(|| run.teardown()));
    if let Err(e) = td {
        panicked.get_or_insert(panic_msg(&e));
    }
    if let Some(p) = &panicked {
        let prop = cfg.prop;
        w(|w| w.violate(prop, "crate-panicked", format!("{:?}: panic while executing the history: {}", cfg.kind, p)));
    }
    let outcome = run.outcome;
    w(|w| ExecResult {
        choices: std::mem::take(&mut w.choices),
        arities: std::mem::take(&mut w.arities),
        costmask: std::mem::take(&mut w.costmask),
        is_top: std::mem::take(&mut w.is_top),
        violations: std::mem::take(&mut w.violations),
        state_hash,
        ops_applied: run.ops_applied,
        epilogue_steps: run.epilogue_steps,
        rendered: std::mem::take(&mut run.rendered),
        log: std::mem::take(&mut w.log),
        nondet_error: w.nondet_error.take(),
        horizon_hit: w.horizon_hit,
        panicked,
        outcome_sig: outcome,
        top_ops: run.top_ops,
        quiesce_run: run.quiesce_run,
    })
}

fn panic_msg(e: &Box<dyn std::any::Any + Send>) -> String {
    if let Some(s) = e.downcast_ref::<&str>() {
        s.to_string()
    } else if let Some(s) = e.downcast_ref::<String>() {
        s.clone()
    } else {
        "<non-string panic>".into()
    }
}
