mod exec;
mod explore;
mod props;
mod special;
mod subjects;
mod world;

use std::fmt::Write as _;
use std::time::Instant;

#[global_allocator]
static A: world::TrackAlloc = world::TrackAlloc;

pub fn jstr(s: &str) -> String {
    let mut o = String::with_capacity(s.len() + 2);
    o.push('"');
    for c in s.chars() {
        match c {
            '"' => o.push_str("\\\""),
            '\\' => o.push_str("\\\\"),
            '\n' => o.push_str("\\n"),
            '\t' => o.push_str("\\t"),
            c if (c as u32) < 0x20 => {
                let _ = write!(o, "\\u{:04x}", c as u32);
            }
            c => o.push(c),
        }
    }
    o.push('"');
    o
}
pub fn jlist(v: &[String]) -> String {
    format!("[{}]", v.iter().map(|s| jstr(s)).collect::<Vec<_>>().join(","))
}

fn arg(args: &[String], name: &str) -> Option<String> {
    args.iter().position(|a| a == name).and_then(|i| args.get(i + 1).cloned())
}

fn main() {
    let default_hook = std::panic::take_hook();
    std::panic::set_hook(Box::new(move |info| {
        // panics inside an execution are caught and turned into verdicts; everything else is a
        // machinery error and must be loud
        if !exec::QUIET.with(|q| q.get()) {
            default_hook(info);
        }
    }));
    let args: Vec<String> = std::env::args().collect();
    let cmd = args.get(1).map(|s| s.as_str()).unwrap_or("");
    match cmd {
        "check" => {
            let prop = arg(&args, "--prop").expect("--prop");
            let tier = arg(&args, "--tier").unwrap_or_else(|| "quick".into());
            let threads: usize = arg(&args, "--threads").and_then(|s| s.parse().ok()).unwrap_or(16);
            let cap: f64 = arg(&args, "--cap").and_then(|s| s.parse().ok()).unwrap_or(0.0);
            let out = arg(&args, "--out");
            exec::watchdog(if cfg!(miri) { 600 } else { 20 });
            let json = check(&prop, &tier, threads, cap);
            match out {
                Some(p) => std::fs::write(p, json).unwrap(),
                None => println!("{}", json),
            }
        }
        "replay" => {
            let prop = arg(&args, "--prop").expect("--prop");
            let tier = arg(&args, "--tier").unwrap_or_else(|| "quick".into());
            let scen = arg(&args, "--scenario").expect("--scenario");
            let choices: Vec<u8> = arg(&args, "--choices")
                .unwrap_or_default()
                .split(',')
                .filter(|s| !s.is_empty())
                .map(|s| s.trim().parse().unwrap())
                .collect();
            replay(&prop, &tier, &scen, &choices);
        }
        "list" => {
            let prop = arg(&args, "--prop").expect("--prop");
            let tier = arg(&args, "--tier").unwrap_or_else(|| "quick".into());
            for c in props::scenarios(&prop, &tier) {
                println!("{}  depth={} delta={}", c.name, c.depth, c.delta);
            }
        }
        _ => {
            eprintln!("usage: sx check --prop Cxx [--tier quick|thorough] [--threads N] [--cap S] [--out file] | sx replay --prop Cxx --scenario NAME --choices a,b,c");
            std::process::exit(2);
        }
    }
}

fn replay(prop: &str, tier: &str, scen: &str, choices: &[u8]) {
    exec::install_probes();
    if let Some(r) = special::replay(prop, tier, scen) {
        println!("{}", r);
        return;
    }
    let cfgs = props::scenarios(prop, tier);
    let Some(cfg) = cfgs.iter().find(|c| c.name == scen) else {
        eprintln!("no such scenario {}", scen);
        std::process::exit(2);
    };
    let a = exec::run(cfg, choices, true);
    let b = exec::run(cfg, choices, true);
    println!("scenario: {}", cfg.name);
    for l in &a.log {
        println!("{}", l);
    }
    println!("-- violations:");
    for v in &a.violations {
        println!("[{}] {}: {}", v.prop, v.key, v.msg);
    }
    if a.log != b.log {
        println!("!! replay is not deterministic");
        std::process::exit(2);
    }
    if a.violations.iter().any(|v| v.prop == prop) {
        std::process::exit(1);
    }
}

/// Determinism self-test (DESIGN §3.3): run the first executions of every scenario twice with the
/// event log on and compare.
fn determinism_probe(cfgs: &[exec::Cfg]) -> Result<u64, String> {
    exec::install_probes();
    let mut n = 0;
    for cfg in cfgs.iter() {
        let mut frontier: Vec<Vec<u8>> = vec![vec![]];
        let mut done = 0;
        while let Some(p) = frontier.pop() {
            if done >= 24 {
                break;
            }
            done += 1;
            let a = exec::run(cfg, &p, true);
            let b = exec::run(cfg, &p, true);
            n += 1;
            if a.log != b.log || a.choices != b.choices || a.arities != b.arities || a.state_hash != b.state_hash {
                return Err(format!("scenario {} prefix {:?}: two runs of the same choices differ", cfg.name, p));
            }
            for i in p.len()..a.choices.len() {
                for alt in 1..a.arities[i] {
                    if a.is_top[i] && a.is_top[..i].iter().filter(|t| **t).count() >= cfg.depth {
                        continue;
                    }
                    let mut q = a.choices[..i].to_vec();
                    q.push(alt);
                    frontier.push(q);
                }
            }
        }
    }
    Ok(n)
}

fn check(prop: &str, tier: &str, threads: usize, cap: f64) -> String {
    let t0 = Instant::now();
    let mut cfgs = props::scenarios(prop, tier);
    if let Ok(sh) = std::env::var("SX_SHARD") {
        // "i/n": keep every n-th scenario (the Miri slice is spread over several processes)
        let (i, n) = sh.split_once('/').expect("SX_SHARD=i/n");
        let (i, n): (usize, usize) = (i.parse().unwrap(), n.parse().unwrap());
        cfgs = cfgs.into_iter().enumerate().filter(|(k, _)| k % n == i).map(|(_, c)| c).collect();
        if cfgs.is_empty() {
            return format!("{{\"engine\":\"sx\",\"property\":{},\"tier\":{},\"executions\":0,\"states\":0,\"found\":[],\"samples\":[],\"scenario_names\":[]}}", jstr(prop), jstr(tier));
        }
    }
    assert!(!cfgs.is_empty(), "no scenarios for {}", prop);
    let det = if cfg!(miri) { Ok(0) } else { determinism_probe(&cfgs) };
    let mut o = String::new();
    let _ = write!(o, "{{\"engine\":\"sx\",\"property\":{},\"tier\":{},", jstr(prop), jstr(tier));
    if let Err(e) = det {
        let _ = write!(o, "\"machinery_error\":{}}}", jstr(&e));
        return o;
    }
    let mut depth_done = cfgs.iter().map(|c| c.depth).max().unwrap();
    let mut outcome = explore::explore_all(&cfgs, threads, cap);
    let mut capped = false;
    let mut shrink = 0;
    let mut step = 0;
    while outcome.timed_out && outcome.found.is_empty() {
        // the cap was hit: this depth is NOT claimed; fall back to a smaller depth (one level less,
        // then three, then six: the number of fall-back runs stays small whatever the overshoot)
        capped = true;
        step += 1;
        shrink += step;
        let smaller: Vec<exec::Cfg> = cfgs
            .iter()
            .map(|c| {
                let mut c = c.clone();
                c.depth = c.depth.saturating_sub(shrink);
                c
            })
            .collect();
        depth_done = smaller.iter().map(|c| c.depth).max().unwrap();
        outcome = explore::explore_all(&smaller, threads, cap);
        if depth_done == 0 {
            break;
        }
    }
    let st = &outcome.stats;
    let extra = if outcome.machinery_error.is_none() { special::extra(prop, tier, threads) } else { None };
    let (xe, xs, xt) = extra.as_ref().map(|e| (e.executions, e.states, e.transitions)).unwrap_or((0, 0, 0));
    let _ = write!(
        o,
        "\"scenarios\":{},\"executions\":{},\"states\":{},\"transitions\":{},\"ops_applied\":{},\"epilogue_steps\":{},\"choice_points\":{},\"distinct_outcomes\":{},\"horizon_hits\":{},\"quiesce_runs\":{},\"max_depth_completed\":{},\"max_ops_in_one_history\":{},\"delta\":{},\"capped\":{},\"timed_out\":{},\"determinism_probe_runs\":{},\"threads\":{},\"wall_s\":{:.3},",
        cfgs.len(),
        st.executions + xe,
        st.states.len() as u64 + xs,
        st.executions.saturating_sub(cfgs.len() as u64) + st.epilogue_steps + xt,
        st.ops_applied,
        st.epilogue_steps,
        st.choice_points,
        st.outcomes.len(),
        st.horizon_hits,
        st.quiesce_runs,
        depth_done,
        st.max_top_ops,
        cfgs.iter().map(|c| c.delta).max().unwrap(),
        capped,
        outcome.timed_out,
        det.unwrap(),
        threads,
        t0.elapsed().as_secs_f64()
    );
    let mut names: Vec<String> = cfgs.iter().map(|c| format!("{} (depth {}, delta {})", c.name, c.depth, c.delta)).collect();
    let mut all_samples = outcome.samples.clone();
    if let Some(e) = &extra {
        names.extend(e.names.iter().cloned());
        all_samples.splice(0..0, e.samples.iter().cloned());
        let _ = write!(o, "\"x_special\":{},\"x_special_executions\":{},", jstr(&e.note), e.executions);
    }
    if std::env::var("SX_PER_SCENARIO").is_ok() {
        let mut v: Vec<(u64, &str)> = st.per_cfg.iter().enumerate().map(|(i, n)| (*n, cfgs[i].name.as_str())).collect();
        v.sort_by(|a, b| b.0.cmp(&a.0));
        for (n, name) in v.iter().take(25) {
            eprintln!("PER-SCENARIO {:>10} {}", n, name);
        }
    }
    let _ = write!(o, "\"scenario_names\":{},", jlist(&names));
    let samples: Vec<String> = all_samples.iter().map(|s| jlist(s)).collect();
    let _ = write!(o, "\"samples\":[{}],", samples.join(","));
    if let Some(e) = &outcome.machinery_error {
        let _ = write!(o, "\"machinery_error\":{},", jstr(e));
    }
    let mut fs = vec![];
    for f in &outcome.found {
        // confirm by replaying twice (DESIGN §3.4)
        let cfg = &cfgs[f.cfg_index];
        exec::install_probes();
        let a = exec::run(cfg, &f.choices, true);
        let b = exec::run(cfg, &f.choices, true);
        let same = a.log == b.log && a.violations.iter().any(|v| v.prop == f.violation.prop && v.key == f.violation.key);
        let ch: Vec<String> = f.choices.iter().map(|c| c.to_string()).collect();
        fs.push(format!(
            "{{\"scenario\":{},\"key\":{},\"msg\":{},\"choices\":[{}],\"ops\":{},\"confirmed\":{},\"log\":{}}}",
            jstr(&cfg.name),
            jstr(&f.violation.key),
            jstr(&f.violation.msg),
            ch.join(","),
            jlist(&f.rendered),
            same,
            jlist(&a.log)
        ));
    }
    if let Some(e) = &extra {
        if !e.found.is_empty() {
            fs.push(special::extra_json(e));
        }
    }
    let _ = write!(o, "\"found\":[{}]}}", fs.join(","));
    o
}
