//! Checks that are enumerations of configurations rather than free-form histories:
//!  * C03 layout sweep: every (capacity, slot index) pair up to N, two constructors, two ways for
//!    the last owner to die;
//!  * C18 allocation words of the unbounded collections: all fill/drain words up to a length,
//!    each repeated R times, against a fixed logarithmic budget.
//! Both are run *in addition to* the history scenarios of props.rs and merged into one result.

use std::collections::HashSet;
use std::fmt::Write as _;
use std::sync::atomic::{AtomicUsize, Ordering};
use std::sync::Mutex;
use std::task::Waker;

use crate::exec::{begin, ops, Cfg, ChildSpec, Op, EXTRA_WAKERS, QUIET};
use crate::subjects::{Kind, PushHow};
use crate::world::*;
use crate::{jlist, jstr};

pub struct Extra {
    pub executions: u64,
    pub states: u64,
    pub transitions: u64,
    pub samples: Vec<Vec<String>>,
    /// (scenario, key, msg, rendered ops)
    pub found: Vec<(String, String, String, Vec<String>)>,
    pub note: String,
    pub names: Vec<String>,
}

// ------------------------------------------------------------------------------------------------
// C08, static part: an adapter over a `!Unpin` upstream must itself be `!Unpin`, otherwise safe code
// may move the adapter - and with it the upstream it has already polled - between two polls.
// (`is_unpin!` uses autoref-based specialisation, so it needs the concrete types, hence a macro.)

struct UnpinProbe<'a, T>(&'a T);
trait ProbeYes {
    fn is_unpin(&self) -> bool {
        true
    }
}
impl<'a, T: Unpin> ProbeYes for UnpinProbe<'a, T> {}
trait ProbeNo {
    fn is_unpin(&self) -> bool {
        false
    }
}
impl<'a, 'b, T> ProbeNo for &'b UnpinProbe<'a, T> {}
macro_rules! is_unpin {
    ($e:expr) => {{
        let v = $e;
        let r = (&UnpinProbe(&v)).is_unpin();
        drop(v);
        r
    }};
}

struct PinnedUp<I>(std::marker::PhantomData<fn() -> I>, std::marker::PhantomPinned);
impl<I> futures_core::Stream for PinnedUp<I> {
    type Item = I;
    fn poll_next(self: std::pin::Pin<&mut Self>, _cx: &mut std::task::Context<'_>) -> std::task::Poll<Option<I>> {
        std::task::Poll::Ready(None)
    }
}
fn pinned_up<I>() -> PinnedUp<I> {
    PinnedUp(std::marker::PhantomData, std::marker::PhantomPinned)
}

// C03, static part: the collections may only be Send / Sync when the futures they hold are (the waker
// block is shared between threads, the futures are not): a blanket `unsafe impl Send` would let safe
// code move a !Send future to another thread.
struct AutoProbe<'a, T>(&'a T);
trait SendYes {
    fn is_send(&self) -> bool {
        true
    }
}
impl<'a, T: Send> SendYes for AutoProbe<'a, T> {}
trait SendNo {
    fn is_send(&self) -> bool {
        false
    }
}
impl<'a, 'b, T> SendNo for &'b AutoProbe<'a, T> {}
trait SyncYes {
    fn is_sync(&self) -> bool {
        true
    }
}
impl<'a, T: Sync> SyncYes for AutoProbe<'a, T> {}
trait SyncNo {
    fn is_sync(&self) -> bool {
        false
    }
}
impl<'a, 'b, T> SyncNo for &'b AutoProbe<'a, T> {}
macro_rules! send_sync {
    ($e:expr) => {{
        let v = $e;
        let r = ((&AutoProbe(&v)).is_send(), (&AutoProbe(&v)).is_sync());
        drop(v);
        r
    }};
}

/// a future that is neither Send nor Sync
struct LocalFut(std::rc::Rc<()>);
impl std::future::Future for LocalFut {
    type Output = ();
    fn poll(self: std::pin::Pin<&mut Self>, _cx: &mut std::task::Context<'_>) -> std::task::Poll<()> {
        std::task::Poll::Ready(())
    }
}
/// a future that is Send and Sync
struct SharedFut(u8);
impl std::future::Future for SharedFut {
    type Output = ();
    fn poll(self: std::pin::Pin<&mut Self>, _cx: &mut std::task::Context<'_>) -> std::task::Poll<()> {
        std::task::Poll::Ready(())
    }
}

fn send_sync_matrix() -> Vec<(String, String, String, Vec<String>)> {
    use futures_buffered::{join_all, FuturesOrdered, FuturesOrderedBounded, FuturesUnordered, FuturesUnorderedBounded};
    let mut found = vec![];
    let mut row = |name: &str, local: (bool, bool), shared: (bool, bool)| {
        if local.0 || local.1 {
            found.push((
                format!("send/sync matrix: {}", name),
                "send-or-sync-over-local-future".to_string(),
                format!("{} holding a future that is neither Send nor Sync is Send = {}, Sync = {}: safe code could use that future from another thread", name, local.0, local.1),
                vec![],
            ));
        }
        if !shared.0 || !shared.1 {
            found.push((
                format!("send/sync matrix: {}", name),
                "not-send-sync-over-shared-future".to_string(),
                format!("{} holding a Send + Sync future is Send = {}, Sync = {} (the probe expects both)", name, shared.0, shared.1),
                vec![],
            ));
        }
    };
    row("FuturesUnorderedBounded", send_sync!(FuturesUnorderedBounded::<LocalFut>::new(1)), send_sync!(FuturesUnorderedBounded::<SharedFut>::new(1)));
    row("FuturesUnordered", send_sync!(FuturesUnordered::<LocalFut>::new()), send_sync!(FuturesUnordered::<SharedFut>::new()));
    row("FuturesOrderedBounded", send_sync!(FuturesOrderedBounded::<LocalFut>::new(1)), send_sync!(FuturesOrderedBounded::<SharedFut>::new(1)));
    row("FuturesOrdered", send_sync!(FuturesOrdered::<LocalFut>::new()), send_sync!(FuturesOrdered::<SharedFut>::new()));
    row("JoinAll", send_sync!(join_all(Vec::<LocalFut>::new())), send_sync!(join_all(Vec::<SharedFut>::new())));
    let _ = SharedFut(0).0;
    let _ = LocalFut(std::rc::Rc::new(())).0;
    found
}

fn unpin_matrix() -> Extra {
    use crate::subjects::{F, TF, UF};
    use futures_buffered::{BufferedStreamExt, BufferedTryStreamExt};
    let mut rows: Vec<(&str, bool)> = vec![];
    // sanity of the probe itself
    let probe_ok = is_unpin!(0u8) && !is_unpin!(std::marker::PhantomPinned);
    rows.push(("buffered_unordered over a !Unpin stream", is_unpin!(pinned_up::<F>().buffered_unordered(2))));
    rows.push(("buffered_ordered over a !Unpin stream", is_unpin!(pinned_up::<F>().buffered_ordered(2))));
    rows.push(("try_buffered_unordered over a !Unpin stream", is_unpin!(pinned_up::<Result<TF, Tok>>().try_buffered_unordered(2))));
    rows.push(("try_buffered_ordered over a !Unpin stream", is_unpin!(pinned_up::<Result<TF, Tok>>().try_buffered_ordered(2))));
    rows.push(("for_each_concurrent over a !Unpin stream", is_unpin!(pinned_up::<u32>().for_each_concurrent(2, |i: u32| UF::new(i)))));
    let mut found = vec![];
    if !probe_ok {
        found.push(("unpin matrix".to_string(), "probe-broken".to_string(), "the Unpin probe of the harness does not work".to_string(), vec![]));
    }
    for (name, unpin) in &rows {
        if *unpin {
            found.push((
                format!("unpin matrix: {}", name),
                "adapter-unpin-over-pinned-stream".to_string(),
                format!("{} is Unpin: safe code may move it, and with it the upstream stream it has already polled, between two polls", name),
                vec![],
            ));
        }
    }
    Extra {
        executions: rows.len() as u64,
        states: rows.len() as u64,
        transitions: rows.len() as u64,
        samples: vec![rows.iter().map(|(n, u)| format!("{}: Unpin = {}", n, u)).collect()],
        found,
        note: "static Unpin matrix of the five adapters over a !Unpin upstream".into(),
        names: vec!["unpin matrix (5 adapters over a !Unpin upstream must be !Unpin)".into()],
    }
}

pub fn extra(prop: &str, tier: &str, threads: usize) -> Option<Extra> {
    if tier == "miri" {
        return None;
    }
    if prop == "C08" {
        return Some(unpin_matrix());
    }
    match prop {
        "C03" => {
            let mut e = layout_sweep(if tier == "thorough" { 512 } else { 64 }, threads);
            e.found.extend(send_sync_matrix());
            e.names.push("send/sync matrix (collections over a !Send/!Sync future must be neither; over a Send+Sync future both)".into());
            e.executions += 10;
            Some(e)
        }
        "C18" => Some(alloc_words(tier == "thorough", threads)),
        _ => None,
    }
}

pub fn replay(prop: &str, _tier: &str, scen: &str) -> Option<String> {
    crate::exec::install_probes();
    if prop == "C03" && scen.starts_with("layout ") {
        // "layout cap=.. index=.. ctor=.. last=.."
        let get = |k: &str| scen.split_whitespace().find_map(|t| t.strip_prefix(k)).unwrap().to_string();
        let cap: usize = get("cap=").parse().unwrap();
        let index: usize = get("index=").parse().unwrap();
        let from_iter = get("ctor=") == "from_iter";
        let by_value = get("last=") == "wake";
        let v = sweep_one(cap, index, from_iter, by_value, true);
        let mut o = String::new();
        for l in w(|w| w.log.clone()) {
            let _ = writeln!(o, "{}", l);
        }
        let _ = writeln!(o, "-- violations:");
        for x in &v {
            let _ = writeln!(o, "[{}] {}: {}", x.prop, x.key, x.msg);
        }
        if !v.is_empty() {
            print!("{}", o);
            std::process::exit(1);
        }
        return Some(o);
    }
    if prop == "C18" && scen.starts_with("words ") {
        let thorough = _tier == "thorough";
        for (name, cfg, word, reps) in all_words(thorough) {
            if name == scen {
                let (v, allocs, peak, budget) = run_word(&cfg, &word, reps, true);
                let mut o = String::new();
                let _ = writeln!(o, "{}: {} allocations inside the crate, peak {} children, budget {}", name, allocs, peak, budget);
                for x in &v {
                    let _ = writeln!(o, "[{}] {}: {}", x.prop, x.key, x.msg);
                }
                if !v.is_empty() {
                    print!("{}", o);
                    std::process::exit(1);
                }
                return Some(o);
            }
        }
    }
    None
}

// ------------------------------------------------------------------------------------------------
// C03: layout sweep

fn sweep_one(cap: usize, index: usize, from_iter: bool, by_value: bool, log_on: bool) -> Vec<Violation> {
    let mut cfg = Cfg::new("C03", if from_iter { Kind::FubIter(cap) } else { Kind::Fub(cap) });
    let n = if from_iter { cap } else { index + 1 };
    cfg.prefill = (0..n).map(|_| ChildSpec::fut(Mode::Gate)).collect();
    cfg.ops = ops::POLL;
    QUIET.with(|q| q.set(true));
    let r = std::panic::catch_unwind(std::panic::AssertUnwindSafe(|| {
        let mut run = begin(&cfg, &[], log_on);
        if !run.construct() {
            return;
        }
        // poll until the child in slot `index` has been handed its waker
        let mut polls = 0;
        while w(|w| w.children[index].waker.is_none()) {
            run.do_poll(false);
            run.post_op();
            polls += 1;
            if polls > cap / 8 + 8 {
                w(|w| w.violate("C03", "child-never-polled", format!("cap {} index {}: child was not polled after {} polls", cap, index, polls)));
                break;
            }
        }
        let Some(wk) = clone_child_waker(index as u32) else {
            run.teardown();
            return;
        };
        let nblocks = w(|w| w.blocks.len());
        if nblocks != 1 {
            w(|w| w.violate("C03", "unexpected-block-count", format!("cap {}: {} waker blocks allocated for one bounded collection", cap, nblocks)));
        }
        let item = wk.data() as usize;
        EXTRA_WAKERS.with(|e| e.borrow_mut().push(item));
        // the collection and every other waker die; ours is the last owner
        run.drop_subject();
        let others: Vec<Waker> = w(|w| w.children.iter_mut().filter_map(|c| c.waker.take()).collect());
        for k in others {
            in_crate(|| drop(k));
        }
        w(|w| {
            w.logf(|| format!("collection and all other wakers dropped; last owner is the waker of slot {}", index));
            let b = &w.blocks[0];
            if b.released != 0 {
                w.violate("C03", "released-while-waker-outstanding", format!("cap {} index {}: block released although a waker is outstanding", cap, index));
            }
            let (base, size) = (w.blocks[0].base, w.blocks[0].size);
            if item < base || item >= base + size {
                w.violate("C03", "waker-outside-any-block", format!("cap {} index {}: waker item {:#x} outside block {:#x}+{}", cap, index, item, base, size));
            }
        });
        let wakes_before = w(|w| w.task_wakes_total);
        let polls_before = w(|w| w.child_polls_total);
        if by_value {
            EXTRA_WAKERS.with(|e| e.borrow_mut().clear());
            invoke_child_waker_owned(wk);
        } else {
            invoke_child_waker(&wk);
            w(|w| {
                if w.blocks[0].released != 0 {
                    w.violate("C03", "released-while-waker-outstanding", format!("cap {} index {}: block released by wake_by_ref", cap, index));
                }
            });
            EXTRA_WAKERS.with(|e| e.borrow_mut().clear());
            in_crate(|| drop(wk));
        }
        w(|w| {
            if w.blocks[0].released != 1 {
                let r = w.blocks[0].released;
                w.violate("C03", "not-released-by-last-owner", format!("cap {} index {}: after the last waker died the block had been released {} times", cap, index, r));
            }
            if w.child_polls_total != polls_before {
                w.violate("C03", "child-polled-after-collection-drop", "invoking a waker of a dead collection polled a child");
            }
            let _ = wakes_before;
        });
        run.teardown();
    }));
    QUIET.with(|q| q.set(false));
    if r.is_err() {
        w(|w| w.violate("C03", "crate-panicked", format!("cap {} index {}: panic during the layout execution", cap, index)));
    }
    w(|w| std::mem::take(&mut w.violations)).into_iter().filter(|v| v.prop == "C03").collect()
}

fn layout_sweep(n: usize, threads: usize) -> Extra {
    let next = AtomicUsize::new(0);
    let found: Mutex<Vec<(String, String, String, Vec<String>)>> = Mutex::new(vec![]);
    let execs = AtomicUsize::new(0);
    let steps = AtomicUsize::new(0);
    std::thread::scope(|sc| {
        for _ in 0..threads {
            sc.spawn(|| {
                crate::exec::install_probes();
                loop {
                    // big capacities first: they dominate the cost
                    let k = next.fetch_add(1, Ordering::SeqCst);
                    if k > n {
                        break;
                    }
                    let cap = n - k;
                    for index in 0..cap {
                        for from_iter in [false, true] {
                            for by_value in [false, true] {
                                let v = sweep_one(cap, index, from_iter, by_value, false);
                                execs.fetch_add(1, Ordering::Relaxed);
                                steps.fetch_add(if from_iter { cap } else { index + 1 } + 4, Ordering::Relaxed);
                                for x in v {
                                    let mut f = found.lock().unwrap();
                                    if f.iter().filter(|e| e.1 == x.key).count() < 3 {
                                        f.push((
                                            format!("layout cap={} index={} ctor={} last={}", cap, index, if from_iter { "from_iter" } else { "new" }, if by_value { "wake" } else { "wake_by_ref+drop" }),
                                            x.key.clone(),
                                            x.msg.clone(),
                                            vec![],
                                        ));
                                    }
                                }
                            }
                        }
                    }
                    if cap == 0 {
                        // capacity 0: nothing to hand out; construct and drop
                        for from_iter in [false, true] {
                            let mut cfg = Cfg::new("C03", if from_iter { Kind::FubIter(0) } else { Kind::Fub(0) });
                            cfg.ops = ops::POLL;
                            let mut run = begin(&cfg, &[], false);
                            if run.construct() {
                                run.do_poll(false);
                                run.teardown();
                            }
                            execs.fetch_add(1, Ordering::Relaxed);
                            for x in w(|w| std::mem::take(&mut w.violations)) {
                                if x.prop == "C03" {
                                    found.lock().unwrap().push((format!("layout cap=0 ctor={}", from_iter), x.key, x.msg, vec![]));
                                }
                            }
                        }
                    }
                }
            });
        }
    });
    let e = execs.load(Ordering::Relaxed) as u64;
    Extra {
        executions: e,
        states: e,
        transitions: steps.load(Ordering::Relaxed) as u64,
        samples: vec![vec![
            format!("layout cap={} index={} ctor=new last=wake: push {} children, poll until slot {} has its waker, clone it, drop the collection and every other waker, wake() the clone, expect exactly one release", n, n - 1, n, n - 1),
        ]],
        found: found.into_inner().unwrap(),
        note: format!("layout sweep: all (capacity, slot) pairs with capacity 0..={} x {{new, from_iter}} x {{wake_by_ref+drop, wake}}", n),
        names: vec![format!("layout sweep cap 0..={} (exhaustive over slots, 2 constructors, 2 last-owner deaths)", n)],
    }
}

// ------------------------------------------------------------------------------------------------
// C18: allocation words of the unbounded collections

#[derive(Clone, Copy, Debug, PartialEq, Eq, Hash)]
pub enum Order {
    Fifo,
    Lifo,
    Alternate,
}
#[derive(Clone, Copy, Debug, PartialEq, Eq, Hash)]
pub enum Macro {
    FillTo(usize),
    /// fill through push_front (ordered queues): drives the position counters below zero, so that
    /// the re-basing path runs in every round
    FillFrontTo(usize),
    DrainTo(usize, Order),
}

fn budget(peak: usize) -> u64 {
    let lg = (usize::BITS - peak.leading_zeros()) as u64; // = ceil(log2(peak + 1))
    4 * lg + 16
}

fn run_word(cfg: &Cfg, word: &[Macro], reps: usize, log_on: bool) -> (Vec<Violation>, u64, usize, u64) {
    QUIET.with(|q| q.set(true));
    let mut peak = 0usize;
    let r = std::panic::catch_unwind(std::panic::AssertUnwindSafe(|| {
        let mut run = begin(cfg, &[], log_on);
        reset_crate_allocs();
        if !run.construct() {
            return;
        }
        let is_merge = cfg.kind.is_merge();
        for _ in 0..reps {
            for m in word {
                match *m {
                    Macro::FillTo(k) => {
                        while w(|w| w.held()) < k {
                            run.do_push(0, PushHow::Back, false);
                            run.post_op();
                        }
                    }
                    Macro::FillFrontTo(k) => {
                        while w(|w| w.held()) < k {
                            run.do_push(0, PushHow::Front, false);
                            run.post_op();
                        }
                    }
                    Macro::DrainTo(k, order) => {
                        let mut live: Vec<u32> = w(|w| {
                            w.live_ids.iter().copied().filter(|&i| {
                                let c = &w.children[i as usize];
                                !c.released && !c.fed
                            }).collect()
                        });
                        live.sort();
                        let n = live.len().saturating_sub(k);
                        let victims: Vec<u32> = match order {
                            Order::Fifo => live.drain(..n).collect(),
                            Order::Lifo => live.drain(live.len() - n..).collect(),
                            Order::Alternate => {
                                let mut v = vec![];
                                let mut i = 0;
                                while v.len() < n && i < live.len() {
                                    v.push(live[i]);
                                    i += 2;
                                }
                                let mut j = 1;
                                while v.len() < n && j < live.len() {
                                    v.push(live[j]);
                                    j += 2;
                                }
                                v
                            }
                        };
                        // make sure every child has been polled once (so that it owns a waker), then complete
                        for _ in 0..(w(|w| w.held()) / 32 + 3) {
                            run.do_poll(false);
                            run.post_op();
                            if run.last_out_kind != 3 {
                                break;
                            }
                        }
                        for v in victims {
                            if is_merge {
                                run.apply(&Op::Feed(v));
                            } else {
                                run.apply(&Op::Complete(v));
                            }
                        }
                        let mut guard = 0;
                        loop {
                            run.do_poll(false);
                            run.post_op();
                            guard += 1;
                            if run.last_out_kind != 3 && !(run.last_out_kind == 1 && w(|w| w.last_poll_woken)) {
                                break;
                            }
                            if guard > 100_000 {
                                break;
                            }
                        }
                    }
                }
                // children still inside the subject: running ones plus finished ones whose output is parked
                let held = w(|w| w.live_ids.len()) + run.parked();
                peak = peak.max(held);
            }
        }
        let allocs = crate_allocs();
        let b = budget(peak);
        if allocs > b {
            w(|w| {
                w.violate(
                    "C18",
                    "allocations-exceed-log-budget",
                    format!("{:?}: {} allocations inside the crate over {} repetitions of the word, peak {} children held, budget 4*ceil(log2(peak+1))+16 = {}", cfg.kind, allocs, reps, peak, b),
                )
            });
        }
        run.teardown();
    }));
    QUIET.with(|q| q.set(false));
    if r.is_err() {
        w(|w| w.violate("C18", "crate-panicked", "panic while running an allocation word"));
    }
    let allocs = crate_allocs();
    let v: Vec<Violation> = w(|w| std::mem::take(&mut w.violations)).into_iter().filter(|v| v.prop == "C18").collect();
    (v, allocs, peak, budget(peak))
}

fn words_over(ks: &[usize], len: usize) -> Vec<Vec<Macro>> {
    // sequences of targets t1..tL, t_i != t_{i-1}, starting from 0 held; a decreasing step carries an order
    let mut out: Vec<(Vec<Macro>, usize)> = vec![(vec![], 0)];
    let mut all = vec![];
    for _ in 0..len {
        let mut next = vec![];
        for (wd, cur) in &out {
            for &k in ks {
                if k == *cur {
                    continue;
                }
                if k > *cur {
                    let mut w2 = wd.clone();
                    w2.push(Macro::FillTo(k));
                    next.push((w2, k));
                } else {
                    for o in [Order::Fifo, Order::Lifo, Order::Alternate] {
                        let mut w2 = wd.clone();
                        w2.push(Macro::DrainTo(k, o));
                        next.push((w2, k));
                    }
                }
            }
        }
        for (wd, _) in &next {
            all.push(wd.clone());
        }
        out = next;
    }
    all
}

fn all_words(thorough: bool) -> Vec<(String, Cfg, Vec<Macro>, usize)> {
    let (len, reps) = if thorough { (5, 64) } else { (4, 16) };
    let mut v = vec![];
    let subjects: Vec<(Kind, Vec<usize>, usize)> = vec![
        (Kind::FuCap(1), vec![0, 1, 3, 4, 9], len),
        (Kind::FoCap(1), vec![0, 1, 3, 4, 9], len),
        (Kind::FuNew, if thorough { vec![0, 33, 70, 140] } else { vec![0, 33, 70] }, len.min(4)),
        (Kind::FoNew, vec![0, 33, 70], len.min(if thorough { 4 } else { 3 })),
        (Kind::Mu(0), if thorough { vec![0, 33, 70, 140] } else { vec![0, 33, 70] }, len.min(4)),
        (Kind::FuCap(2), vec![0, 2, 7], len),
    ];
    // long oscillations between empty (or nearly empty) and a large peak: a growth policy that does
    // not double, or a retained group that is too small, shows only after many refills
    let long_reps = if thorough { 400 } else { 150 };
    for kind in [Kind::FuNew, Kind::FoNew, Kind::Mu(0), Kind::FuCap(1), Kind::FoCap(1)] {
        let peaks: &[usize] = if thorough { &[100, 260, 520, 1000] } else { &[100, 260, 520] };
        for &pk in peaks {
            for lo in [0usize, 1, 40] {
                for word in words_over(&[lo, pk], 2) {
                    if !matches!(word[0], Macro::FillTo(k) if k == pk) {
                        continue;
                    }
                    let mut cfg = Cfg::new("C18", kind);
                    cfg.specs = vec![if kind.is_merge() { ChildSpec::stream("P") } else { ChildSpec::fut(Mode::Gate) }];
                    cfg.ops = ops::POLL | ops::PUSH | ops::COMPLETE;
                    cfg.horizon = 10;
                    let name = format!("words {:?} x{} {:?}", kind, long_reps, word);
                    v.push((name, cfg, word, long_reps));
                }
            }
        }
    }
    // ordered queues filled from the front, finishing out of order (outputs parked), many rounds
    for kind in [Kind::FoNew, Kind::FoCap(1), Kind::FoCap(4)] {
        for pk in [4usize, 16, 40] {
            for lo in [0usize, 1] {
                for o1 in [Order::Fifo, Order::Lifo, Order::Alternate] {
                    for mid in [None, Some(pk / 2)] {
                        let mut word = vec![Macro::FillFrontTo(pk)];
                        if let Some(m) = mid {
                            word.push(Macro::DrainTo(m, o1));
                            word.push(Macro::FillTo(pk));
                        }
                        word.push(Macro::DrainTo(lo, o1));
                        let mut cfg = Cfg::new("C18", kind);
                        cfg.specs = vec![ChildSpec::fut(Mode::Gate)];
                        cfg.ops = ops::POLL | ops::PUSH | ops::PUSH_FRONT | ops::COMPLETE;
                        cfg.horizon = 10;
                        let name = format!("words {:?} x{} {:?}", kind, long_reps, word);
                        v.push((name, cfg, word, long_reps));
                    }
                }
            }
        }
    }
    for (kind, ks, l) in subjects {
        for word in words_over(&ks, l) {
            let mut cfg = Cfg::new("C18", kind);
            cfg.specs = vec![if kind.is_merge() { ChildSpec::stream("P") } else { ChildSpec::fut(Mode::Gate) }];
            cfg.ops = ops::POLL | ops::PUSH | ops::COMPLETE;
            cfg.horizon = 10;
            let name = format!("words {:?} x{} {:?}", kind, reps, word);
            v.push((name, cfg, word, reps));
        }
    }
    v
}

fn alloc_words(thorough: bool, threads: usize) -> Extra {
    let words = all_words(thorough);
    let next = AtomicUsize::new(0);
    let found: Mutex<Vec<(String, String, String, Vec<String>)>> = Mutex::new(vec![]);
    let outcomes: Mutex<HashSet<(u64, usize)>> = Mutex::new(HashSet::new());
    let steps = AtomicUsize::new(0);
    let maxratio: Mutex<(u64, u64, String)> = Mutex::new((0, 1, String::new()));
    std::thread::scope(|sc| {
        for _ in 0..threads {
            sc.spawn(|| {
                crate::exec::install_probes();
                loop {
                    let i = next.fetch_add(1, Ordering::SeqCst);
                    if i >= words.len() {
                        break;
                    }
                    let (name, cfg, word, reps) = &words[i];
                    let (v, allocs, peak, b) = run_word(cfg, word, *reps, false);
                    steps.fetch_add(word.len() * reps, Ordering::Relaxed);
                    outcomes.lock().unwrap().insert((allocs, peak));
                    {
                        let mut m = maxratio.lock().unwrap();
                        if allocs * m.1 > m.0 * b {
                            *m = (allocs, b, name.clone());
                        }
                    }
                    for x in v {
                        let mut f = found.lock().unwrap();
                        if f.len() < 5 {
                            f.push((name.clone(), x.key, x.msg, word.iter().map(|m| format!("{:?}", m)).collect()));
                        }
                    }
                }
            });
        }
    });
    let m = maxratio.into_inner().unwrap();
    Extra {
        executions: words.len() as u64,
        states: outcomes.into_inner().unwrap().len() as u64,
        transitions: steps.load(Ordering::Relaxed) as u64,
        samples: words.iter().step_by((words.len() / 3).max(1)).take(3).map(|(n, _, _, _)| vec![n.clone()]).collect(),
        found: found.into_inner().unwrap(),
        note: format!("allocation words: {} words, closest to the budget: {} allocations of {} allowed in {}", words.len(), m.0, m.1, m.2),
        names: vec![format!("allocation words over FillTo/DrainTo(order) for FuCap(1), FoCap(1), FuCap(2), FuNew, FoNew, MergeUnbounded ({} words)", words.len())],
    }
}

pub fn extra_json(e: &Extra) -> String {
    let fs: Vec<String> = e
        .found
        .iter()
        .map(|(s, k, m, ops)| format!("{{\"scenario\":{},\"key\":{},\"msg\":{},\"choices\":[],\"ops\":{},\"confirmed\":true,\"log\":[]}}", jstr(s), jstr(k), jstr(m), jlist(ops)))
        .collect();
    fs.join(",")
}
