#!/bin/bash
# usage: confirm_seed.sh <worktree> <seed-id> <demo-file-relative>
# Confirms, in the scratch worktree: the existing suite is green with the change, the demonstration
# fails with the change and passes without it. Then stores patch + demo under /verif/seeded/<id>/.
set -u
WT=$1; ID=$2; DEMO=$3
export CARGO_NET_OFFLINE=true
cd "$WT" || exit 2
DEMONAME=$(basename "$DEMO" .rs)
git diff -- src > /tmp/confirm_$ID.diff
[ -s /tmp/confirm_$ID.diff ] || { echo "no src change"; exit 2; }
echo "== suite with the change (demo excluded)"
cargo nextest run --workspace --no-fail-fast --offline -E "not binary($DEMONAME)" > /tmp/confirm_$ID.suite.log 2>&1
SUITE=$?
tail -3 /tmp/confirm_$ID.suite.log
echo "== demo with the change (must fail)"
cargo nextest run --offline --no-fail-fast --test "$DEMONAME" > /tmp/confirm_$ID.demo_with.log 2>&1
WITH=$?
tail -3 /tmp/confirm_$ID.demo_with.log
# (no git stash: the stash is shared by all worktrees of a repository)
git apply -R /tmp/confirm_$ID.diff || { echo "cannot take the change out"; exit 2; }
echo "== demo without the change (must pass)"
cargo nextest run --offline --no-fail-fast --test "$DEMONAME" > /tmp/confirm_$ID.demo_without.log 2>&1
WITHOUT=$?
tail -3 /tmp/confirm_$ID.demo_without.log
git apply /tmp/confirm_$ID.diff
echo "suite_green_with_change=$([ $SUITE -eq 0 ] && echo yes || echo no) demo_fails_with_change=$([ $WITH -ne 0 ] && echo yes || echo no) demo_passes_without=$([ $WITHOUT -eq 0 ] && echo yes || echo no)"
if [ $SUITE -eq 0 ] && [ $WITH -ne 0 ] && [ $WITHOUT -eq 0 ]; then
  mkdir -p /verif/seeded/$ID
  cp /tmp/confirm_$ID.diff /verif/seeded/$ID/patch.diff
  cp "$WT/$DEMO" /verif/seeded/$ID/
  [ -f "$WT/NOTES.md" ] && cp "$WT/NOTES.md" /verif/seeded/$ID/NOTES.md
  echo "CONFIRMED -> /verif/seeded/$ID"
else
  echo "NOT CONFIRMED"; exit 1
fi
