//! The subjects: every public type of the crate behind one small trait, so that histories can be
//! generated and checked generically. Every call into the crate is wrapped in `in_crate`.

use std::panic::{catch_unwind, AssertUnwindSafe};
use std::pin::Pin;
use std::task::{Context, Poll};

use futures_buffered::{
    join_all, try_join_all, BufferUnordered, BufferedOrdered, BufferedStreamExt, BufferedTryStreamExt,
    FuturesOrdered, FuturesOrderedBounded, FuturesUnordered, FuturesUnorderedBounded, JoinAll,
    MergeBounded, MergeUnbounded, TryBufferUnordered, TryBufferedOrdered, TryJoinAll,
};
use futures_core::{FusedStream, Stream};

use crate::world::*;

pub type F = ScriptFut<Tok>;
pub type TF = ScriptFut<Result<Tok, Tok>>;
pub type UF = ScriptFut<()>;

pub enum PollOut {
    Pending,
    Item(Result<Tok, Tok>),
    Done,
    Vec(Vec<Tok>),
    TryVec(Result<Vec<Tok>, Tok>),
    Unit,
}

#[derive(Clone, Copy, PartialEq, Eq, Debug, Hash)]
pub enum PushHow {
    Back,
    Front,
}

#[derive(Debug, PartialEq, Eq)]
pub enum PushRes {
    Accepted,
    /// the id of the future that came back
    Refused(u32),
    Panicked,
    Unsupported,
}

#[derive(Default, Clone, Debug)]
pub struct Obs {
    pub len: Option<usize>,
    pub is_empty: Option<bool>,
    pub capacity: Option<usize>,
    pub size_hint: Option<(usize, Option<usize>)>,
    pub is_terminated: Option<bool>,
}

pub trait Subject {
    fn poll(&mut self, cx: &mut Context<'_>) -> PollOut;
    fn push(&mut self, _id: u32, _how: PushHow, _panicking: bool) -> PushRes {
        PushRes::Unsupported
    }
    /// `Extend::extend` with the given children (ordered queues); None = not supported
    fn extend(&mut self, _ids: &[u32]) -> Option<()> {
        None
    }
    fn obs(&self) -> Obs;
    fn relocate(self: Box<Self>) -> Box<dyn Subject>;
    fn seed(&mut self, _s: usize) {}
}

fn map_item(p: Poll<Option<Tok>>) -> PollOut {
    match p {
        Poll::Pending => PollOut::Pending,
        Poll::Ready(None) => PollOut::Done,
        Poll::Ready(Some(t)) => PollOut::Item(Ok(t)),
    }
}
fn map_try(p: Poll<Option<Result<Tok, Tok>>>) -> PollOut {
    match p {
        Poll::Pending => PollOut::Pending,
        Poll::Ready(None) => PollOut::Done,
        Poll::Ready(Some(t)) => PollOut::Item(t),
    }
}

/// call a panicking push; the future is consumed either way
fn guarded<Fu>(f: impl FnOnce() -> Fu) -> Option<Fu> {
    catch_unwind(AssertUnwindSafe(f)).ok()
}

macro_rules! relocate {
    () => {
        fn relocate(self: Box<Self>) -> Box<dyn Subject> {
            // move the value to a fresh heap location (and the old one is freed)
            let moved = *self;
            let pad = Box::new([0u8; 48]);
            let b: Box<dyn Subject> = Box::new(moved);
            drop(pad);
            b
        }
    };
}

// ---------------------------------------------------------------- FuturesUnorderedBounded
pub struct SFub(pub FuturesUnorderedBounded<F>);
impl Subject for SFub {
    fn poll(&mut self, cx: &mut Context<'_>) -> PollOut {
        map_item(in_crate(|| Pin::new(&mut self.0).poll_next(cx)))
    }
    fn push(&mut self, id: u32, _how: PushHow, panicking: bool) -> PushRes {
        let f = F::new(id);
        if panicking {
            match guarded(|| in_crate(|| self.0.push(f))) {
                Some(()) => PushRes::Accepted,
                None => PushRes::Panicked,
            }
        } else {
            match in_crate(|| self.0.try_push(f)) {
                Ok(()) => PushRes::Accepted,
                Err(f) => {
                    let id = f.id;
                    drop(f);
                    PushRes::Refused(id)
                }
            }
        }
    }
    fn obs(&self) -> Obs {
        in_crate(|| Obs {
            len: Some(self.0.len()),
            is_empty: Some(self.0.is_empty()),
            capacity: Some(self.0.capacity()),
            size_hint: Some(self.0.size_hint()),
            is_terminated: Some(self.0.is_terminated()),
        })
    }
    relocate!();
}

// ---------------------------------------------------------------- FuturesUnordered
pub struct SFu(pub FuturesUnordered<F>);
impl Subject for SFu {
    fn poll(&mut self, cx: &mut Context<'_>) -> PollOut {
        map_item(in_crate(|| Pin::new(&mut self.0).poll_next(cx)))
    }
    fn push(&mut self, id: u32, _how: PushHow, _panicking: bool) -> PushRes {
        let f = F::new(id);
        in_crate(|| self.0.push(f));
        PushRes::Accepted
    }
    fn obs(&self) -> Obs {
        in_crate(|| Obs {
            len: Some(self.0.len()),
            is_empty: Some(self.0.is_empty()),
            capacity: None,
            size_hint: Some(self.0.size_hint()),
            is_terminated: Some(self.0.is_terminated()),
        })
    }
    relocate!();
}

// ---------------------------------------------------------------- FuturesOrderedBounded
pub struct SFob(pub FuturesOrderedBounded<F>, pub usize);
impl Subject for SFob {
    fn poll(&mut self, cx: &mut Context<'_>) -> PollOut {
        map_item(in_crate(|| Pin::new(&mut self.0).poll_next(cx)))
    }
    fn push(&mut self, id: u32, how: PushHow, panicking: bool) -> PushRes {
        let f = F::new(id);
        if panicking {
            let r = match how {
                PushHow::Back => guarded(|| in_crate(|| self.0.push_back(f))),
                PushHow::Front => guarded(|| in_crate(|| self.0.push_front(f))),
            };
            match r {
                Some(()) => PushRes::Accepted,
                None => PushRes::Panicked,
            }
        } else {
            let r = match how {
                PushHow::Back => in_crate(|| self.0.try_push_back(f)),
                PushHow::Front => in_crate(|| self.0.try_push_front(f)),
            };
            match r {
                Ok(()) => PushRes::Accepted,
                Err(f) => {
                    let id = f.id;
                    drop(f);
                    PushRes::Refused(id)
                }
            }
        }
    }
    fn obs(&self) -> Obs {
        in_crate(|| Obs {
            len: Some(self.0.len()),
            is_empty: Some(self.0.is_empty()),
            capacity: Some(self.1),
            size_hint: Some(self.0.size_hint()),
            is_terminated: Some(self.0.is_terminated()),
        })
    }
    fn seed(&mut self, s: usize) {
        self.0.verif_seed_positions(s)
    }
    fn extend(&mut self, ids: &[u32]) -> Option<()> {
        // an iterator with an inexact size hint (lower bound 0): just as legal as a Vec, less forgiving
        let v: Vec<F> = ids.iter().map(|&i| F::new(i)).collect();
        let it = v.into_iter().filter(|_| true);
        in_crate(|| self.0.extend(it));
        Some(())
    }
    relocate!();
}

// ---------------------------------------------------------------- FuturesOrdered
pub struct SFo(pub FuturesOrdered<F>);
impl Subject for SFo {
    fn poll(&mut self, cx: &mut Context<'_>) -> PollOut {
        map_item(in_crate(|| Pin::new(&mut self.0).poll_next(cx)))
    }
    fn push(&mut self, id: u32, how: PushHow, _panicking: bool) -> PushRes {
        let f = F::new(id);
        match how {
            PushHow::Back => in_crate(|| self.0.push_back(f)),
            PushHow::Front => in_crate(|| self.0.push_front(f)),
        }
        PushRes::Accepted
    }
    fn obs(&self) -> Obs {
        in_crate(|| Obs {
            len: Some(self.0.len()),
            is_empty: Some(self.0.is_empty()),
            capacity: None,
            size_hint: Some(self.0.size_hint()),
            is_terminated: Some(self.0.is_terminated()),
        })
    }
    fn seed(&mut self, s: usize) {
        self.0.verif_seed_positions(s)
    }
    fn extend(&mut self, ids: &[u32]) -> Option<()> {
        // an iterator with an inexact size hint (lower bound 0): just as legal as a Vec, less forgiving
        let v: Vec<F> = ids.iter().map(|&i| F::new(i)).collect();
        let it = v.into_iter().filter(|_| true);
        in_crate(|| self.0.extend(it));
        Some(())
    }
    relocate!();
}

// ---------------------------------------------------------------- MergeBounded
pub struct SMb(pub MergeBounded<ScriptStream>);
impl Subject for SMb {
    fn poll(&mut self, cx: &mut Context<'_>) -> PollOut {
        map_item(in_crate(|| Pin::new(&mut self.0).poll_next(cx)))
    }
    fn push(&mut self, id: u32, _how: PushHow, panicking: bool) -> PushRes {
        let s = ScriptStream::new(id);
        if panicking {
            match guarded(|| in_crate(|| self.0.push(s))) {
                Some(()) => PushRes::Accepted,
                None => PushRes::Panicked,
            }
        } else {
            match in_crate(|| self.0.try_push(s)) {
                Ok(()) => PushRes::Accepted,
                Err(s) => {
                    let id = s.id;
                    drop(s);
                    PushRes::Refused(id)
                }
            }
        }
    }
    fn obs(&self) -> Obs {
        in_crate(|| Obs { size_hint: Some(self.0.size_hint()), ..Obs::default() })
    }
    relocate!();
}

// ---------------------------------------------------------------- MergeUnbounded
pub struct SMu(pub MergeUnbounded<Pin<Box<ScriptStream>>>);
impl Subject for SMu {
    fn poll(&mut self, cx: &mut Context<'_>) -> PollOut {
        map_item(in_crate(|| Pin::new(&mut self.0).poll_next(cx)))
    }
    fn push(&mut self, id: u32, _how: PushHow, _panicking: bool) -> PushRes {
        let s = Box::pin(ScriptStream::new(id));
        in_crate(|| self.0.push(s));
        PushRes::Accepted
    }
    fn obs(&self) -> Obs {
        in_crate(|| Obs {
            len: Some(self.0.len()),
            is_empty: Some(self.0.is_empty()),
            size_hint: Some(self.0.size_hint()),
            ..Obs::default()
        })
    }
    relocate!();
}

pub struct SMuU(pub MergeUnbounded<UStream>);
impl Subject for SMuU {
    fn poll(&mut self, cx: &mut Context<'_>) -> PollOut {
        map_item(in_crate(|| Pin::new(&mut self.0).poll_next(cx)))
    }
    fn push(&mut self, id: u32, _how: PushHow, _panicking: bool) -> PushRes {
        let s = UStream { id };
        in_crate(|| self.0.push(s));
        PushRes::Accepted
    }
    fn obs(&self) -> Obs {
        in_crate(|| Obs {
            len: Some(self.0.len()),
            is_empty: Some(self.0.is_empty()),
            size_hint: Some(self.0.size_hint()),
            ..Obs::default()
        })
    }
    relocate!();
}

// ---------------------------------------------------------------- adapters
pub struct SBu(pub BufferUnordered<Upstream<F>>);
impl Subject for SBu {
    fn poll(&mut self, cx: &mut Context<'_>) -> PollOut {
        map_item(in_crate(|| Pin::new(&mut self.0).poll_next(cx)))
    }
    fn obs(&self) -> Obs {
        in_crate(|| Obs { size_hint: Some(self.0.size_hint()), ..Obs::default() })
    }
    relocate!();
}
pub struct SBo(pub BufferedOrdered<Upstream<F>>);
impl Subject for SBo {
    fn poll(&mut self, cx: &mut Context<'_>) -> PollOut {
        map_item(in_crate(|| Pin::new(&mut self.0).poll_next(cx)))
    }
    fn obs(&self) -> Obs {
        in_crate(|| Obs { size_hint: Some(self.0.size_hint()), ..Obs::default() })
    }
    relocate!();
}
pub struct STbu(pub TryBufferUnordered<Upstream<Result<TF, Tok>>>);
impl Subject for STbu {
    fn poll(&mut self, cx: &mut Context<'_>) -> PollOut {
        map_try(in_crate(|| Pin::new(&mut self.0).poll_next(cx)))
    }
    fn obs(&self) -> Obs {
        in_crate(|| Obs { size_hint: Some(self.0.size_hint()), ..Obs::default() })
    }
    relocate!();
}
/// `buffered_ordered` over futures whose output is zero-sized. A `()` cannot say who produced it:
/// the k-th `()` handed out is attributed to the k-th item pulled (the order itself cannot be
/// observed here), which must have completed by then; all counting oracles apply as usual.
pub struct SBoZ(pub BufferedOrdered<Upstream<UF>>);
impl Subject for SBoZ {
    fn poll(&mut self, cx: &mut Context<'_>) -> PollOut {
        match in_crate(|| Pin::new(&mut self.0).poll_next(cx)) {
            Poll::Pending => PollOut::Pending,
            Poll::Ready(None) => PollOut::Done,
            Poll::Ready(Some(())) => {
                let id = w(|w| {
                    let id = (0..w.children.len() as u32).find(|&i| {
                        let c = &w.children[i as usize];
                        c.accepted && !w.toks.iter().any(|t| t.id == i)
                    });
                    match id {
                        Some(i) => {
                            if !w.children[i as usize].completed {
                                w.violate("C07", "output-without-completion", format!("an output was handed out for item {} although its future has not completed", i));
                            }
                            Some(i)
                        }
                        None => {
                            w.violate("C02", "more-outputs-than-items", "an output was handed out although every pulled item has already been answered");
                            None
                        }
                    }
                });
                match id {
                    Some(i) => PollOut::Item(Ok(Tok::produce(i, 0, false))),
                    None => PollOut::Pending,
                }
            }
        }
    }
    fn obs(&self) -> Obs {
        in_crate(|| Obs { size_hint: Some(self.0.size_hint()), ..Obs::default() })
    }
    relocate!();
}
pub struct STbo(pub TryBufferedOrdered<Upstream<Result<TF, Tok>>>);
impl Subject for STbo {
    fn poll(&mut self, cx: &mut Context<'_>) -> PollOut {
        map_try(in_crate(|| Pin::new(&mut self.0).poll_next(cx)))
    }
    fn obs(&self) -> Obs {
        in_crate(|| Obs { size_hint: Some(self.0.size_hint()), ..Obs::default() })
    }
    relocate!();
}

pub fn fec_closure(it: RawItem) -> UF {
    callback(|| {
        let boom = w(|w| {
            let c = &mut w.children[it.0 as usize];
            if c.closure_panics {
                // no future comes into being for this item: nothing to poll, nothing to drop
                c.no_drop_glue = true;
                w.closure_calls.push(it.0);
                w.logf(|| format!("    the closure panics for item {}", it.0));
                true
            } else {
                false
            }
        });
        if boom {
            std::panic::resume_unwind(Box::new(ChildPanic(it.0)));
        }
        w(|w| {
            w.closure_calls.push(it.0);
            if !w.children[it.0 as usize].accepted {
                w.accept(it.0);
            }
        });
        UF::new(it.0)
    })
}
/// `ForEachConcurrent` is not nameable from outside the crate: keep it generic.
pub struct SFec<Fu>(pub Fu);
impl<Fu: std::future::Future<Output = ()> + Unpin + 'static> Subject for SFec<Fu> {
    fn poll(&mut self, cx: &mut Context<'_>) -> PollOut {
        match in_crate(|| Pin::new(&mut self.0).poll(cx)) {
            Poll::Pending => PollOut::Pending,
            Poll::Ready(()) => PollOut::Unit,
        }
    }
    fn obs(&self) -> Obs {
        Obs::default()
    }
    relocate!();
}
fn mk_fec<Fu: std::future::Future<Output = ()> + Unpin + 'static>(f: Fu) -> Box<dyn Subject> {
    Box::new(SFec(f))
}

// ---------------------------------------------------------------- join_all / try_join_all
pub struct SJa(pub JoinAll<F>);
impl Subject for SJa {
    fn poll(&mut self, cx: &mut Context<'_>) -> PollOut {
        use std::future::Future;
        match in_crate(|| Pin::new(&mut self.0).poll(cx)) {
            Poll::Pending => PollOut::Pending,
            Poll::Ready(v) => PollOut::Vec(v),
        }
    }
    fn obs(&self) -> Obs {
        Obs::default()
    }
    relocate!();
}
pub struct STja(pub TryJoinAll<TF>);
impl Subject for STja {
    fn poll(&mut self, cx: &mut Context<'_>) -> PollOut {
        use std::future::Future;
        match in_crate(|| Pin::new(&mut self.0).poll(cx)) {
            Poll::Pending => PollOut::Pending,
            Poll::Ready(v) => PollOut::TryVec(v),
        }
    }
    fn obs(&self) -> Obs {
        Obs::default()
    }
    relocate!();
}

/// the same two combinators over outputs that have no destructor
pub type PF = ScriptFut<PTok>;
pub type PTF = ScriptFut<Result<PTok, PTok>>;
pub struct SJaP(pub JoinAll<PF>);
impl Subject for SJaP {
    fn poll(&mut self, cx: &mut Context<'_>) -> PollOut {
        use std::future::Future;
        match in_crate(|| Pin::new(&mut self.0).poll(cx)) {
            Poll::Pending => PollOut::Pending,
            Poll::Ready(v) => PollOut::Vec(v.into_iter().map(|p| p.into_tok()).collect()),
        }
    }
    fn obs(&self) -> Obs {
        Obs::default()
    }
    relocate!();
}
pub struct STjaP(pub TryJoinAll<PTF>);
impl Subject for STjaP {
    fn poll(&mut self, cx: &mut Context<'_>) -> PollOut {
        use std::future::Future;
        match in_crate(|| Pin::new(&mut self.0).poll(cx)) {
            Poll::Pending => PollOut::Pending,
            Poll::Ready(Ok(v)) => PollOut::TryVec(Ok(v.into_iter().map(|p| p.into_tok()).collect())),
            Poll::Ready(Err(e)) => PollOut::TryVec(Err(e.into_tok())),
        }
    }
    fn obs(&self) -> Obs {
        Obs::default()
    }
    relocate!();
}

/// the same over futures that have no destructor (outputs do)
pub type NF = NdFut<Tok>;
pub type NTF = NdFut<Result<Tok, Tok>>;
pub struct SJaN(pub JoinAll<NF>);
impl Subject for SJaN {
    fn poll(&mut self, cx: &mut Context<'_>) -> PollOut {
        use std::future::Future;
        match in_crate(|| Pin::new(&mut self.0).poll(cx)) {
            Poll::Pending => PollOut::Pending,
            Poll::Ready(v) => PollOut::Vec(v),
        }
    }
    fn obs(&self) -> Obs {
        Obs::default()
    }
    relocate!();
}
pub struct STjaN(pub TryJoinAll<NTF>);
impl Subject for STjaN {
    fn poll(&mut self, cx: &mut Context<'_>) -> PollOut {
        use std::future::Future;
        match in_crate(|| Pin::new(&mut self.0).poll(cx)) {
            Poll::Pending => PollOut::Pending,
            Poll::Ready(v) => PollOut::TryVec(v),
        }
    }
    fn obs(&self) -> Obs {
        Obs::default()
    }
    relocate!();
}
pub struct SFobN(pub FuturesOrderedBounded<NF>, pub usize);
impl Subject for SFobN {
    fn poll(&mut self, cx: &mut Context<'_>) -> PollOut {
        map_item(in_crate(|| Pin::new(&mut self.0).poll_next(cx)))
    }
    fn push(&mut self, id: u32, how: PushHow, _panicking: bool) -> PushRes {
        let f = NF::new(id);
        let r = match how {
            PushHow::Back => in_crate(|| self.0.try_push_back(f)),
            PushHow::Front => in_crate(|| self.0.try_push_front(f)),
        };
        match r {
            Ok(()) => PushRes::Accepted,
            Err(f) => PushRes::Refused(f.id),
        }
    }
    fn extend(&mut self, ids: &[u32]) -> Option<()> {
        let v: Vec<NF> = ids.iter().map(|&i| NF::new(i)).collect();
        let it = v.into_iter().filter(|_| true);
        in_crate(|| self.0.extend(it));
        Some(())
    }
    fn obs(&self) -> Obs {
        in_crate(|| Obs {
            len: Some(self.0.len()),
            is_empty: Some(self.0.is_empty()),
            capacity: Some(self.1),
            size_hint: Some(self.0.size_hint()),
            is_terminated: Some(self.0.is_terminated()),
        })
    }
    relocate!();
}

/// zero-sized futures with a destructor
pub struct SFubZ(pub FuturesUnorderedBounded<ZFut>);
impl Subject for SFubZ {
    fn poll(&mut self, cx: &mut Context<'_>) -> PollOut {
        map_item(in_crate(|| Pin::new(&mut self.0).poll_next(cx)))
    }
    fn push(&mut self, id: u32, _how: PushHow, _panicking: bool) -> PushRes {
        let f = ZFut::new(id);
        match in_crate(|| self.0.try_push(f)) {
            Ok(()) => PushRes::Accepted,
            Err(f) => {
                let back = ZFut::unbind_latest();
                drop(f);
                PushRes::Refused(back)
            }
        }
    }
    fn obs(&self) -> Obs {
        in_crate(|| Obs {
            len: Some(self.0.len()),
            is_empty: Some(self.0.is_empty()),
            capacity: Some(self.0.capacity()),
            size_hint: Some(self.0.size_hint()),
            is_terminated: Some(self.0.is_terminated()),
        })
    }
    relocate!();
}
pub struct SJaZ(pub JoinAll<ZFut>);
impl Subject for SJaZ {
    fn poll(&mut self, cx: &mut Context<'_>) -> PollOut {
        use std::future::Future;
        match in_crate(|| Pin::new(&mut self.0).poll(cx)) {
            Poll::Pending => PollOut::Pending,
            Poll::Ready(v) => PollOut::Vec(v),
        }
    }
    fn obs(&self) -> Obs {
        Obs::default()
    }
    relocate!();
}
pub struct SFuZ(pub FuturesUnordered<ZFut>);
impl Subject for SFuZ {
    fn poll(&mut self, cx: &mut Context<'_>) -> PollOut {
        map_item(in_crate(|| Pin::new(&mut self.0).poll_next(cx)))
    }
    fn push(&mut self, id: u32, _how: PushHow, _panicking: bool) -> PushRes {
        let f = ZFut::new(id);
        in_crate(|| self.0.push(f));
        PushRes::Accepted
    }
    fn obs(&self) -> Obs {
        in_crate(|| Obs { len: Some(self.0.len()), is_empty: Some(self.0.is_empty()), size_hint: Some(self.0.size_hint()), is_terminated: Some(self.0.is_terminated()), ..Obs::default() })
    }
    relocate!();
}

// ---------------------------------------------------------------- construction

#[derive(Clone, Copy, PartialEq, Eq, Debug, Hash)]
pub enum Kind {
    /// FuturesUnorderedBounded::new(cap)
    Fub(usize),
    /// FuturesUnorderedBounded::from_iter of k prefilled children
    FubIter(usize),
    /// FuturesUnordered::new()
    FuNew,
    /// FuturesUnordered::with_capacity(n)
    FuCap(usize),
    /// FuturesUnordered::from_iter of k children
    FuIter(usize),
    Fob(usize),
    FobIter(usize),
    FoNew,
    FoCap(usize),
    FoIter(usize),
    /// MergeBounded::from_iter of k sources
    Mb(usize),
    /// MergeUnbounded::new(), then prefill k sources
    Mu(usize),
    /// MergeUnbounded::from_iter of k sources
    MuIter(usize),
    /// the unbounded merge over `Unpin` sources that live directly in its slots
    MuU(usize),
    /// `buffered_ordered` over futures with a zero-sized output
    BoZ(usize),
    Bu(usize),
    Bo(usize),
    Tbu(usize),
    Tbo(usize),
    Fec(usize),
    Ja(usize),
    Tja(usize),
    /// join_all / try_join_all over plain-data outputs
    JaP(usize),
    TjaP(usize),
    /// join_all / try_join_all / FuturesOrderedBounded over futures without drop glue
    JaN(usize),
    TjaN(usize),
    FobN(usize),
    /// zero-sized futures with a destructor
    FubZ(usize),
    FuZ(usize),
    JaZ(usize),
}

impl Kind {
    pub fn is_ordered(self) -> bool {
        matches!(
            self,
            Kind::Fob(_) | Kind::FobIter(_) | Kind::FoNew | Kind::FoCap(_) | Kind::FoIter(_) | Kind::Bo(_) | Kind::Tbo(_) | Kind::FobN(_) | Kind::BoZ(_)
        )
    }
    pub fn is_collection(self) -> bool {
        matches!(
            self,
            Kind::Fub(_)
                | Kind::FubIter(_)
                | Kind::FuNew
                | Kind::FuCap(_)
                | Kind::FuIter(_)
                | Kind::Fob(_)
                | Kind::FobIter(_)
                | Kind::FoNew
                | Kind::FoCap(_)
                | Kind::FoIter(_)
                | Kind::FobN(_)
                | Kind::FubZ(_)
                | Kind::FuZ(_)
        )
    }
    pub fn is_merge(self) -> bool {
        matches!(self, Kind::Mb(_) | Kind::Mu(_) | Kind::MuIter(_) | Kind::MuU(_))
    }
    pub fn is_adapter(self) -> bool {
        matches!(self, Kind::Bu(_) | Kind::Bo(_) | Kind::Tbu(_) | Kind::Tbo(_) | Kind::Fec(_) | Kind::BoZ(_))
    }
    pub fn is_join(self) -> bool {
        matches!(self, Kind::Ja(_) | Kind::Tja(_) | Kind::JaP(_) | Kind::TjaP(_) | Kind::JaN(_) | Kind::TjaN(_) | Kind::JaZ(_))
    }
    pub fn is_try(self) -> bool {
        matches!(self, Kind::Tbu(_) | Kind::Tbo(_) | Kind::Tja(_) | Kind::TjaP(_) | Kind::TjaN(_))
    }
    /// capacity of the bounded types (None = unbounded or not applicable)
    pub fn bound(self) -> Option<usize> {
        match self {
            Kind::Fub(n) | Kind::FubIter(n) | Kind::Fob(n) | Kind::FobIter(n) | Kind::Mb(n) | Kind::FobN(n) | Kind::FubZ(n) => Some(n),
            _ => None,
        }
    }
    /// types that must not allocate after construction (C18)
    pub fn alloc_free(self) -> bool {
        matches!(
            self,
            Kind::Fub(_) | Kind::FubIter(_) | Kind::Mb(_) | Kind::Bu(_) | Kind::Tbu(_) | Kind::Fec(_) | Kind::Ja(_) | Kind::Tja(_) | Kind::JaP(_) | Kind::TjaP(_) | Kind::JaN(_) | Kind::TjaN(_)
        )
    }
}

/// The iterator handed to the from_iter-style constructors: exact (a Vec), or with a size hint whose
/// lower bound is below the real count (`filter`), which is just as legal.
thread_local! {
    /// the iterator handed to a from_iter-style constructor panics after yielding this many items
    pub static ITER_PANIC_AT: std::cell::Cell<Option<usize>> = const { std::cell::Cell::new(None) };
}
/// payload of that panic
pub struct IterPanic;

fn feed<T: 'static>(mut v: Vec<T>, inexact: bool) -> Box<dyn Iterator<Item = T>> {
    if let Some(k) = ITER_PANIC_AT.with(|c| c.get()) {
        // exact size hint, but `next` panics at position k (the items not yet yielded are dropped with
        // the iterator)
        let mut it = v.into_iter();
        let mut i = 0usize;
        struct Bomb<I: Iterator> {
            it: I,
            i: usize,
            k: usize,
        }
        impl<I: Iterator> Iterator for Bomb<I> {
            type Item = I::Item;
            fn next(&mut self) -> Option<I::Item> {
                if self.i == self.k {
                    self.i += 1;
                    callback(|| ());
                    std::panic::resume_unwind(Box::new(IterPanic));
                }
                self.i += 1;
                self.it.next()
            }
            fn size_hint(&self) -> (usize, Option<usize>) {
                self.it.size_hint()
            }
        }
        let _ = (&mut it, &mut i);
        return Box::new(Bomb { it, i: 0, k });
    }
    if inexact {
        // an exact part followed by a filtered part: the size hint is (4n/5, Some(n)) - a positive
        // lower bound that is below the real count (for n < 5 the whole iterator is filtered)
        let k = v.len() * 4 / 5;
        let tail = v.split_off(k);
        Box::new(v.into_iter().chain(tail.into_iter().filter(|_| true)))
    } else {
        Box::new(v.into_iter())
    }
}

/// Build the subject. `prefill` are ids of children already created in the world (for the
/// from_iter style constructors). Returns None (and records a violation) if the constructor panics.
pub fn build(kind: Kind, prefill: &[u32], inexact: bool) -> Option<Box<dyn Subject>> {
    let r = catch_unwind(AssertUnwindSafe(|| -> Box<dyn Subject> {
        match kind {
            Kind::Fub(n) => Box::new(SFub(in_crate(|| FuturesUnorderedBounded::new(n)))),
            Kind::FubIter(_) => {
                let it: Vec<F> = prefill.iter().map(|&i| F::new(i)).collect();
                Box::new(SFub({ let it = feed(it, inexact); in_crate(|| it.collect()) }))
            }
            Kind::FuNew => Box::new(SFu(in_crate(FuturesUnordered::new))),
            Kind::FuCap(n) => Box::new(SFu(in_crate(|| FuturesUnordered::with_capacity(n)))),
            Kind::FuIter(_) => {
                let it: Vec<F> = prefill.iter().map(|&i| F::new(i)).collect();
                Box::new(SFu({ let it = feed(it, inexact); in_crate(|| it.collect()) }))
            }
            Kind::Fob(n) => Box::new(SFob(in_crate(|| FuturesOrderedBounded::new(n)), n)),
            Kind::FobIter(n) => {
                let it: Vec<F> = prefill.iter().map(|&i| F::new(i)).collect();
                Box::new(SFob({ let it = feed(it, inexact); in_crate(|| it.collect()) }, n))
            }
            Kind::FoNew => Box::new(SFo(in_crate(FuturesOrdered::new))),
            Kind::FoCap(n) => Box::new(SFo(in_crate(|| FuturesOrdered::with_capacity(n)))),
            Kind::FoIter(_) => {
                let it: Vec<F> = prefill.iter().map(|&i| F::new(i)).collect();
                Box::new(SFo({ let it = feed(it, inexact); in_crate(|| it.collect()) }))
            }
            Kind::Mb(_) => {
                let it: Vec<ScriptStream> = prefill.iter().map(|&i| ScriptStream::new(i)).collect();
                Box::new(SMb({ let it = feed(it, inexact); in_crate(|| it.collect()) }))
            }
            Kind::Mu(_) => {
                let mut m = in_crate(MergeUnbounded::new);
                for &i in prefill {
                    let s = Box::pin(ScriptStream::new(i));
                    in_crate(|| m.push(s));
                }
                Box::new(SMu(m))
            }
            Kind::MuU(_) => {
                let mut m = in_crate(MergeUnbounded::new);
                for &i in prefill {
                    let s = UStream { id: i };
                    in_crate(|| m.push(s));
                }
                Box::new(SMuU(m))
            }
            Kind::MuIter(_) => {
                let it: Vec<Pin<Box<ScriptStream>>> = prefill.iter().map(|&i| Box::pin(ScriptStream::new(i))).collect();
                Box::new(SMu({ let it = feed(it, inexact); in_crate(|| it.collect()) }))
            }
            Kind::Bu(n) => Box::new(SBu(in_crate(|| Upstream::<F>::new().buffered_unordered(n)))),
            Kind::Bo(n) => Box::new(SBo(in_crate(|| Upstream::<F>::new().buffered_ordered(n)))),
            Kind::BoZ(n) => Box::new(SBoZ(in_crate(|| Upstream::<UF>::new().buffered_ordered(n)))),
            Kind::Tbu(n) => {
                Box::new(STbu(in_crate(|| Upstream::<Result<TF, Tok>>::new().try_buffered_unordered(n))))
            }
            Kind::Tbo(n) => Box::new(STbo(in_crate(|| Upstream::<Result<TF, Tok>>::new().try_buffered_ordered(n)))),
            Kind::Fec(n) => mk_fec(in_crate(|| {
                Upstream::<RawItem>::new().for_each_concurrent(n, fec_closure as fn(RawItem) -> UF)
            })),
            Kind::Ja(_) => {
                let it: Vec<F> = prefill.iter().map(|&i| F::new(i)).collect();
                Box::new(SJa({ let it = feed(it, inexact); in_crate(|| join_all(it)) }))
            }
            Kind::Tja(_) => {
                let it: Vec<TF> = prefill.iter().map(|&i| TF::new(i)).collect();
                Box::new(STja({ let it = feed(it, inexact); in_crate(|| try_join_all(it)) }))
            }
            Kind::FubZ(n) => Box::new(SFubZ(in_crate(|| FuturesUnorderedBounded::new(n)))),
            Kind::FuZ(n) => Box::new(SFuZ(in_crate(|| FuturesUnordered::with_capacity(n)))),
            Kind::JaZ(_) => {
                let it: Vec<ZFut> = prefill.iter().map(|&i| ZFut::new(i)).collect();
                Box::new(SJaZ({ let it = feed(it, inexact); in_crate(|| join_all(it)) }))
            }
            Kind::JaN(_) => {
                let it: Vec<NF> = prefill.iter().map(|&i| NF::new(i)).collect();
                Box::new(SJaN({ let it = feed(it, inexact); in_crate(|| join_all(it)) }))
            }
            Kind::TjaN(_) => {
                let it: Vec<NTF> = prefill.iter().map(|&i| NTF::new(i)).collect();
                Box::new(STjaN({ let it = feed(it, inexact); in_crate(|| try_join_all(it)) }))
            }
            Kind::FobN(n) => Box::new(SFobN(in_crate(|| FuturesOrderedBounded::new(n)), n)),
            Kind::JaP(_) => {
                let it: Vec<PF> = prefill.iter().map(|&i| PF::new(i)).collect();
                Box::new(SJaP({ let it = feed(it, inexact); in_crate(|| join_all(it)) }))
            }
            Kind::TjaP(_) => {
                let it: Vec<PTF> = prefill.iter().map(|&i| PTF::new(i)).collect();
                Box::new(STjaP({ let it = feed(it, inexact); in_crate(|| try_join_all(it)) }))
            }
        }
    }));
    match r {
        Ok(b) => Some(b),
        Err(e) => {
            if e.downcast_ref::<IterPanic>().is_some() {
                ITER_PANICKED.with(|c| c.set(true));
            }
            None
        }
    }
}
thread_local! {
    pub static ITER_PANICKED: std::cell::Cell<bool> = const { std::cell::Cell::new(false) };
}
