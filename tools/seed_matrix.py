#!/usr/bin/env python3
"""Runs every seeded change under /verif/seeded against the quick check of its property (and any
extra properties named in its meta.json), records the outcome in meta.json and seeded/RESULTS.md.
Applies each patch to /repo and restores the tree afterwards."""
import json, os, subprocess, sys, glob, time

ROOT = "/verif"
NEEDS = json.load(open(os.path.join(ROOT, "seeded", "needs.json")))

def sh(cmd, cwd=None):
    return subprocess.run(cmd, cwd=cwd, shell=isinstance(cmd, str), stdout=subprocess.PIPE, stderr=subprocess.STDOUT, text=True)

only = sys.argv[1:]
rows = []
# evidence files must only ever describe the unchanged tree: keep them aside while patches are applied
import shutil
KEEP = os.path.join(ROOT, "target", "evidence.keep.matrix")
shutil.rmtree(KEEP, ignore_errors=True)
shutil.copytree(os.path.join(ROOT, "evidence"), KEEP)
for d in sorted(glob.glob(os.path.join(ROOT, "seeded", "C*"))):
    sid = os.path.basename(d)
    if only and sid not in only:
        mp = os.path.join(d, "meta.json")
        if os.path.exists(mp):
            rows.append(json.load(open(mp)))
        continue
    prop = sid.split("-")[0]
    info = NEEDS.get(sid, {})
    props = [prop] + [p for p in info.get("also", []) if p != prop]
    assert sh("git -C /repo diff --quiet").returncode == 0, "/repo dirty"
    r = sh(["git", "-C", "/repo", "apply", os.path.join(d, "patch.diff")])
    if r.returncode != 0:
        print(sid, "patch does not apply:", r.stdout)
        continue
    results = {}
    try:
        for p in props:
            t = time.time()
            c = sh(["./check", p], cwd=ROOT)
            lines = [l for l in c.stdout.splitlines() if l.startswith("VIOLATION") or l.strip().startswith(("scenario:", "history:")) or ": " in l and l.startswith("  ")]
            first = []
            for i, l in enumerate(c.stdout.splitlines()):
                if l.startswith("VIOLATION"):
                    first = c.stdout.splitlines()[i:i + 4]
                    break
            results[p] = {"exit": c.returncode, "detected": c.returncode == 1, "first_violation": first, "wall_s": round(time.time() - t, 1)}
    finally:
        sh("git -C /repo checkout -- .")
    demo = [f for f in os.listdir(d) if f.startswith("demo_")]
    meta = {
        "id": sid,
        "breaks_property": prop,
        "what": info.get("what", ""),
        "needs_to_manifest": info.get("needs", ""),
        "source": "independent sub-agent given only the property text and a scratch worktree of /repo",
        "confirmed": "tools/confirm_seed.sh in the scratch worktree: existing 44-test suite green with the change; demonstration fails with the change and passes without it",
        "demonstration": demo,
        "ran": ["git -C /repo apply seeded/%s/patch.diff" % sid] + ["./check %s  (quick tier)" % p for p in props] + ["git -C /repo checkout -- ."],
        "results": results,
        "detected_by": [p for p in props if results[p]["detected"]],
    }
    json.dump(meta, open(os.path.join(d, "meta.json"), "w"), indent=1)
    rows.append(meta)
    print(sid, {p: results[p]["exit"] for p in props})

shutil.rmtree(os.path.join(ROOT, "evidence"), ignore_errors=True)
shutil.move(KEEP, os.path.join(ROOT, "evidence"))
with open(os.path.join(ROOT, "seeded", "RESULTS.md"), "w") as f:
    f.write("# Seeded property-breaking changes and which checks catch them (quick tier)\n\n")
    f.write("| seed | breaks | what the change does | needs to manifest | caught by | first violation reported |\n|---|---|---|---|---|---|\n")
    for m in rows:
        fv = ""
        for p in m["detected_by"][:1]:
            fv = " ".join(x.strip() for x in m["results"][p]["first_violation"][1:3])
        f.write("| %s | %s | %s | %s | %s | %s |\n" % (m["id"], m["breaks_property"], m["what"], m["needs_to_manifest"], ", ".join(m["detected_by"]) or "**MISSED**", fv.replace("|", "/")[:220]))
