import sys
pid=sys.argv[1]
variant=sys.argv[2] if len(sys.argv)>2 else ""
prop=open(f"/tmp/prop_{pid}.txt").read()
wt=f"/tmp/wt_{pid}{variant}"
print(f"""You are helping to test a verification effort by seeding a realistic bug. You work ONLY inside the scratch git worktree {wt} (a checkout of the Rust crate `futures-buffered`: bounded/unbounded FuturesUnordered, FuturesOrdered, merge and buffered stream combinators built on a custom unsafe intrusive waker list). Do not read or write anything under /repo or /verif, and do not touch other /tmp/wt_* directories. The sandbox has no network: always pass --offline to cargo (CARGO_NET_OFFLINE=true). A pre-built `target/` directory is already in the worktree so builds are incremental.

Here is a semantic property of the crate that is supposed to hold:

{prop}

Your task: write a CHANGE to the crate's source code (files under {wt}/src, non-test code) that BREAKS this property, while
  (a) the crate still compiles without errors, and
  (b) the crate's existing test suite still passes with your change: run `cd {wt} && CARGO_NET_OFFLINE=true cargo nextest run --workspace --no-fail-fast --offline` (44 tests; if nextest misbehaves use `cargo test --offline --lib --tests`; doctests need network and are not part of the suite), and
  (c) the breakage is NOT something ordinary use would expose at once: it should need something specific to manifest - a particular interleaving of threads, a multi-step sequence of operations, an unusual input/capacity/configuration, a particular point of drop/cancellation, or two cooperating code sites that each look fine alone. Think of the kind of subtle regression a maintainer could plausibly introduce in a refactor or "optimisation" (cursor/offset logic, ordering of publish vs. write, forgetting a re-arm, off-by-one at a boundary, weakened memory ordering, missed wake on a rare path, wrong branch on a rare state) - not a deliberate sabotage that any smoke test catches, and not a change guarded by an artificial trigger (no magic constants such as "if len == 7", no environment variables, no randomness, no cfg flags).
Keep the change small (typically 1-15 lines). Do not modify existing tests. Ignore any code guarded by `cfg(futures_buffered_verif)` / `cfg(loom)` (verification hooks; leave them as they are and do not rely on them).

Also write a DEMONSTRATION: a new integration test file {wt}/tests/demo_{pid.lower()}{variant}.rs (it may use the dev-dependencies already available: futures, futures-test, tokio; std threads are fine) that FAILS with your change and PASSES on the original code. Verify both directions yourself: run the demo with your change applied (must fail), then take the src change out with `git diff -- src > /tmp/<your-worktree-name>.diff && git apply -R /tmp/<your-worktree-name>.diff` (keep the demo file; do NOT use `git stash`: the stash is shared between all worktrees of this repository and other people work in sibling worktrees), run it again (must pass), then put it back with `git apply /tmp/<your-worktree-name>.diff`. The demo must be deterministic (if it depends on thread timing, loop enough or synchronise so that it fails reliably with the change and never without it).

When done, leave in the worktree (uncommitted): your src change and the demo file; and write {wt}/patch.diff containing `git diff -- src` (only the src change, not the demo), and {wt}/NOTES.md with: which part of the property it breaks, what exactly is needed for it to manifest (the precise sequence/interleaving/configuration), and the commands you ran with their outcomes (suite still green with change: yes/no; demo fails with change: yes/no; demo passes without: yes/no). Do not commit anything. Finish with a short summary of the same.""")
