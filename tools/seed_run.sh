#!/bin/bash
# usage: seed_run.sh <seed-id> <prop> [<prop>...]   (VERIF_TIER respected)
# Applies /verif/seeded/<id>/patch.diff to /repo, runs the named checks, reverts. Prints one line per check.
ID=$1; shift
P=/verif/seeded/$ID/patch.diff
cd /repo || exit 2
if ! git diff --quiet; then echo "/repo has uncommitted changes"; exit 2; fi
git apply "$P" || { echo "patch does not apply"; exit 2; }
# evidence files must only ever describe the unchanged tree: keep them aside while the patch is applied
rm -rf /verif/target/evidence.keep; cp -r /verif/evidence /verif/target/evidence.keep
trap 'git -C /repo checkout -- . ; rm -rf /verif/evidence; mv /verif/target/evidence.keep /verif/evidence' EXIT
for prop in "$@"; do
  out=$(cd /verif && ./check $prop 2>&1); rc=$?
  echo "SEED $ID check $prop -> exit $rc: $(echo "$out" | grep -E 'VIOLATION|MACHINERY|KNOWN' | head -3 | tr '\n' ' ')"
  echo "$out" | grep -A3 VIOLATION | head -8 | sed 's/^/      /'
done
