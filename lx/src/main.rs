//! Engine LX: loom drives the *real* waker list, queue, diatomic waker and poll loop of
//! futures-buffered through every interleaving (and every stale read the atomic orderings allow)
//! of a small executor against 1-3 waker threads, up to a preemption bound.
//!
//!   lx list <Cxx> <tier>          names of the scenarios of a property
//!   lx run <scenario> <tier>      explore one scenario; prints "LX-OK schedules=N outcomes=M" or dies
//!
//! loom aborts the process on a failing schedule, so the driver runs each scenario in its own process.

use std::collections::{BTreeSet, VecDeque};
use std::future::Future;
use std::pin::Pin;
use std::sync::atomic::{AtomicU64, AtomicUsize, Ordering as O};
use std::sync::Mutex as StdMutex;
use std::task::{Context, Poll, RawWaker, RawWakerVTable, Waker};

use futures_buffered::{join_all, BufferedStreamExt, FuturesOrderedBounded, FuturesUnordered, FuturesUnorderedBounded, MergeBounded};
use futures_core::Stream;
use loom::sync::atomic::AtomicBool;
use loom::sync::{Arc, Mutex, Notify};
use loom::thread;

// ------------------------------------------------------------------------------------------------
// bookkeeping outside loom's view (plain std: no scheduling points, no synchronisation)

static SCHEDULES: AtomicU64 = AtomicU64::new(0);
static OUTCOMES: StdMutex<BTreeSet<Vec<u32>>> = StdMutex::new(BTreeSet::new());

struct Block {
    /// bytes of the block when it was released (deferred free): a later write is found at the end of the schedule
    snapshot: Vec<u8>,
    base: usize,
    size: usize,
    align: usize,
    released: u32,
}
static BLOCKS: StdMutex<Vec<Block>> = StdMutex::new(Vec::new());
/// which thread released each block in this schedule (part of the recorded outcome: shows that the
/// release really raced)
static RELEASED_BY: StdMutex<Vec<String>> = StdMutex::new(Vec::new());
static RELEASE_OUTCOMES: StdMutex<BTreeSet<Vec<String>>> = StdMutex::new(BTreeSet::new());
static CHILD_POLLS_AFTER_DROP: AtomicUsize = AtomicUsize::new(0);
static COLLECTION_GONE: AtomicUsize = AtomicUsize::new(0);

fn violation(key: &str, msg: String) -> ! {
    println!("LX-VIOLATION {} {}", key, msg);
    panic!("LX-VIOLATION {} {}", key, msg);
}

fn probe_alloc(base: *mut u8, size: usize) {
    BLOCKS.lock().unwrap().push(Block { snapshot: Vec::new(), base: base as usize, size, align: 0, released: 0 });
}
fn probe_release(base: *mut u8, size: usize, align: usize) -> bool {
    let mut b = BLOCKS.lock().unwrap();
    match b.iter_mut().rev().find(|x| x.base == base as usize) {
        None => {
            drop(b);
            violation("unknown-block-released", format!("{:#x}", base as usize))
        }
        Some(x) => {
            x.released += 1;
            x.align = align;
            if x.released > 1 {
                let base = x.base;
                drop(b);
                violation("block-released-twice", format!("waker block {:#x} released a second time", base));
            }
            if x.size != size {
                drop(b);
                violation("release-size-mismatch", String::new());
            }
            x.snapshot = unsafe { std::slice::from_raw_parts(base as *const u8, size) }.to_vec();
        }
    }
    RELEASED_BY.lock().unwrap().push(format!("{:?}", thread::current().id()));
    true // deferred: freed at the end of the schedule, so that a later use is observed, not UB
}
fn probe_vtable(kind: u8, item: *const (), header: *const ()) {
    let p = item as usize;
    let b = BLOCKS.lock().unwrap();
    let found = b.iter().rev().find(|b| p >= b.base && p < b.base + b.size).map(|b| (b.base, b.released));
    drop(b);
    let names = ["clone", "wake", "wake_by_ref", "drop"];
    match found {
        None => violation("waker-outside-any-block", format!("{} on item {:#x}", names[kind as usize & 3], p)),
        Some((base, rel)) => {
            if rel > 0 {
                violation("use-after-release", format!("{} on a waker into block {:#x} after the block was released", names[kind as usize & 3], base));
            }
            if header as usize != base {
                violation("wrong-header", format!("item {:#x} resolves to {:#x}, block starts at {:#x}", p, header as usize, base));
            }
        }
    }
}

fn begin_schedule() {
    SCHEDULES.fetch_add(1, O::Relaxed);
    BLOCKS.lock().unwrap().clear();
    CHILD_POLLS_AFTER_DROP.store(0, O::Relaxed);
    COLLECTION_GONE.store(0, O::Relaxed);
}
/// end of one schedule: every block must have been released exactly once; free the deferred memory
fn end_schedule(expect_all_released: bool) {
    let rb: Vec<String> = std::mem::take(&mut *RELEASED_BY.lock().unwrap());
    RELEASE_OUTCOMES.lock().unwrap().insert(rb);
    let blocks: Vec<Block> = std::mem::take(&mut *BLOCKS.lock().unwrap());
    let mut leaked = None;
    for b in &blocks {
        if b.released == 0 {
            leaked = Some(b.base);
        }
    }
    let mut dirty = None;
    for b in &blocks {
        if b.released >= 1 {
            let now = unsafe { std::slice::from_raw_parts(b.base as *const u8, b.size) };
            if let Some(off) = (0..b.size.min(b.snapshot.len())).find(|&i| now[i] != b.snapshot[i]) {
                dirty = Some((b.base, off));
            }
        }
    }
    for b in &blocks {
        if b.released >= 1 {
            unsafe { std::alloc::dealloc(b.base as *mut u8, std::alloc::Layout::from_size_align(b.size, b.align).unwrap()) };
        }
    }
    if let Some((base, off)) = dirty {
        violation("write-after-release", format!("byte {} of waker block {:#x} was overwritten after the block had been released", off, base));
    }
    if expect_all_released {
        if let Some(base) = leaked {
            violation("block-leaked", format!("waker block {:#x} was never released although the collection and all wakers are gone", base));
        }
    }
    if CHILD_POLLS_AFTER_DROP.load(O::Relaxed) > 0 {
        violation("child-polled-after-collection-drop", String::new());
    }
}
fn record_outcome(v: Vec<u32>) {
    OUTCOMES.lock().unwrap().insert(v);
}

// ------------------------------------------------------------------------------------------------
// the executor's task waker: wakes a loom Notify, but only if it is the waker of the most recent
// poll (an executor is free to ignore superseded wakers)

struct Task {
    notify: Notify,
    current_gen: AtomicUsize,
}
struct TaskWaker {
    task: std::sync::Arc<Task>,
    gen: usize,
}
static TW_VTABLE: RawWakerVTable = RawWakerVTable::new(tw_clone, tw_wake, tw_wake_by_ref, tw_drop);
unsafe fn tw_clone(p: *const ()) -> RawWaker {
    unsafe { std::sync::Arc::increment_strong_count(p as *const TaskWaker) };
    RawWaker::new(p, &TW_VTABLE)
}
unsafe fn tw_wake(p: *const ()) {
    unsafe {
        tw_wake_by_ref(p);
        tw_drop(p);
    }
}
unsafe fn tw_wake_by_ref(p: *const ()) {
    let w = unsafe { &*(p as *const TaskWaker) };
    if w.gen == w.task.current_gen.load(O::SeqCst) {
        w.task.notify.notify();
    }
}
unsafe fn tw_drop(p: *const ()) {
    unsafe { std::sync::Arc::decrement_strong_count(p as *const TaskWaker) };
}
fn task_waker(task: &std::sync::Arc<Task>, gen: usize) -> Waker {
    let a = std::sync::Arc::new(TaskWaker { task: task.clone(), gen });
    unsafe { Waker::from_raw(RawWaker::new(std::sync::Arc::into_raw(a) as *const (), &TW_VTABLE)) }
}

// ------------------------------------------------------------------------------------------------
// children: a correct "flag future" (store the waker, then re-check the flag)

struct Shared {
    done: AtomicBool,
    wakers: Mutex<Vec<Waker>>,
    /// how many clones of the waker each poll parks (for the double-wake / last-drop scenarios)
    copies: usize,
}
fn shared(copies: usize) -> Arc<Shared> {
    Arc::new(Shared { done: AtomicBool::new(false), wakers: Mutex::new(Vec::new()), copies })
}
struct FlagFut {
    id: u32,
    sh: Arc<Shared>,
}
impl Future for FlagFut {
    type Output = u32;
    fn poll(self: Pin<&mut Self>, cx: &mut Context<'_>) -> Poll<u32> {
        if COLLECTION_GONE.load(O::Relaxed) > 0 {
            CHILD_POLLS_AFTER_DROP.fetch_add(1, O::Relaxed);
        }
        if self.sh.done.load(loom::sync::atomic::Ordering::Acquire) {
            return Poll::Ready(self.id);
        }
        {
            let mut g = self.sh.wakers.lock().unwrap();
            let old: Vec<Waker> = std::mem::take(&mut *g);
            for _ in 0..self.sh.copies {
                g.push(cx.waker().clone());
            }
            drop(g);
            drop(old);
        }
        if self.sh.done.load(loom::sync::atomic::Ordering::Acquire) {
            Poll::Ready(self.id)
        } else {
            Poll::Pending
        }
    }
}
#[derive(Clone, Copy, PartialEq)]
enum How {
    Wake,
    WakeByRefDrop,
    CloneWakeDropOrig,
    DropOnly,
}
/// what a waker thread does: set the flag, take one parked waker, use it
fn fire(sh: &Shared, how: How, set_done: bool) {
    if set_done {
        sh.done.store(true, loom::sync::atomic::Ordering::Release);
    }
    let w = sh.wakers.lock().unwrap().pop();
    if let Some(w) = w {
        match how {
            How::Wake => w.wake(),
            How::WakeByRefDrop => {
                w.wake_by_ref();
                drop(w);
            }
            How::CloneWakeDropOrig => {
                let c = w.clone();
                drop(w);
                c.wake();
            }
            How::DropOnly => drop(w),
        }
    }
}

// a merge source fed by a thread
struct FedShared {
    items: Mutex<VecDeque<u32>>,
    closed: AtomicBool,
    waker: Mutex<Option<Waker>>,
}
struct FedStream {
    sh: Arc<FedShared>,
}
impl Stream for FedStream {
    type Item = u32;
    fn poll_next(self: Pin<&mut Self>, cx: &mut Context<'_>) -> Poll<Option<u32>> {
        let mut w = self.sh.waker.lock().unwrap();
        if let Some(x) = self.sh.items.lock().unwrap().pop_front() {
            return Poll::Ready(Some(x));
        }
        if self.sh.closed.load(loom::sync::atomic::Ordering::Acquire) {
            return Poll::Ready(None);
        }
        *w = Some(cx.waker().clone());
        Poll::Pending
    }
}
fn feed(sh: &FedShared, item: Option<u32>) {
    let w = {
        let mut w = sh.waker.lock().unwrap();
        match item {
            Some(x) => sh.items.lock().unwrap().push_back(x),
            None => sh.closed.store(true, loom::sync::atomic::Ordering::Release),
        }
        w.take()
    };
    if let Some(w) = w {
        w.wake();
    }
}

// ------------------------------------------------------------------------------------------------
// the executor

struct Exec {
    task: std::sync::Arc<Task>,
    gen: usize,
    fresh_waker_each_poll: bool,
    waker: Option<Waker>,
}
impl Exec {
    fn new(fresh: bool) -> Exec {
        let task = std::sync::Arc::new(Task { notify: Notify::new(), current_gen: AtomicUsize::new(0) });
        Exec { task, gen: 0, fresh_waker_each_poll: fresh, waker: None }
    }
    fn waker(&mut self) -> Waker {
        if self.waker.is_none() || self.fresh_waker_each_poll {
            self.gen += 1;
            self.task.current_gen.store(self.gen, O::SeqCst);
            self.waker = Some(task_waker(&self.task, self.gen));
        }
        self.waker.clone().unwrap()
    }
    /// poll the stream until it ends; sleep on Pending until the most recent task waker is invoked
    fn drain<S: Stream<Item = u32> + Unpin>(&mut self, s: &mut S, spurious_repolls: usize) -> Vec<u32> {
        let mut out = vec![];
        let mut spurious = spurious_repolls;
        loop {
            let w = self.waker();
            let mut cx = Context::from_waker(&w);
            match Pin::new(&mut *s).poll_next(&mut cx) {
                Poll::Ready(Some(x)) => out.push(x),
                Poll::Ready(None) => return out,
                Poll::Pending => {
                    if spurious > 0 {
                        // a spurious re-poll (with a fresh waker if so configured) before sleeping
                        spurious -= 1;
                        continue;
                    }
                    thread::yield_now();
                    self.task.notify.wait();
                }
            }
        }
    }
}

impl Exec {
    /// poll a future to completion; sleep on Pending until the most recent task waker is invoked
    fn block_on<F: Future + Unpin>(&mut self, f: &mut F) -> F::Output {
        loop {
            let w = self.waker();
            let mut cx = Context::from_waker(&w);
            match Pin::new(&mut *f).poll(&mut cx) {
                Poll::Ready(x) => return x,
                Poll::Pending => {
                    thread::yield_now();
                    self.task.notify.wait();
                }
            }
        }
    }
}

/// an upstream that hands out its futures immediately
struct ReadyUp(Vec<FlagFut>);
impl Stream for ReadyUp {
    type Item = FlagFut;
    fn poll_next(mut self: Pin<&mut Self>, _cx: &mut Context<'_>) -> Poll<Option<FlagFut>> {
        Poll::Ready(if self.0.is_empty() { None } else { Some(self.0.remove(0)) })
    }
}

fn check_outputs(mut got: Vec<u32>, n: u32) {
    record_outcome(got.clone());
    got.sort();
    let want: Vec<u32> = (0..n).collect();
    if got != want {
        violation("wrong-outputs", format!("executor received {:?}, expected each of {:?} exactly once", got, want));
    }
}

// ------------------------------------------------------------------------------------------------
// scenarios

type Scn = fn();

/// C01: n children in a bounded set, one waker thread each
fn wake_vs_poll(n: usize, how: How, fresh: bool, spurious: usize) {
    begin_schedule();
    let shs: Vec<Arc<Shared>> = (0..n).map(|_| shared(1)).collect();
    let mut q = FuturesUnorderedBounded::new(n);
    for (i, sh) in shs.iter().enumerate() {
        q.push(FlagFut { id: i as u32, sh: sh.clone() });
    }
    let hs: Vec<_> = shs
        .iter()
        .map(|sh| {
            let sh = sh.clone();
            thread::spawn(move || fire(&sh, how, true))
        })
        .collect();
    let mut ex = Exec::new(fresh);
    let got = ex.drain(&mut q, spurious);
    for h in hs {
        h.join().unwrap();
    }
    check_outputs(got, n as u32);
    drop(q);
    drop(ex);
    for sh in &shs {
        sh.wakers.lock().unwrap().clear();
    }
    end_schedule(true);
}

fn c01_wake_cap1() {
    wake_vs_poll(1, How::Wake, false, 0)
}
fn c01_wake_cap2() {
    wake_vs_poll(2, How::Wake, false, 0)
}
fn c01_wake_by_ref_cap1() {
    wake_vs_poll(1, How::WakeByRefDrop, false, 0)
}
fn c01_clone_wake_cap1() {
    wake_vs_poll(1, How::CloneWakeDropOrig, false, 0)
}
fn c01_new_waker_each_poll_cap1() {
    wake_vs_poll(1, How::Wake, true, 1)
}
fn c01_new_waker_each_poll_cap2() {
    wake_vs_poll(2, How::Wake, true, 1)
}
fn c01_wake_cap3() {
    wake_vs_poll(3, How::Wake, false, 0)
}

/// C01: one thread wakes the same child twice (a spurious wake, then the real one) while the
/// executor polls in between: the second wake may find the slot still flagged or being dequeued
fn c01_spurious_then_real() {
    begin_schedule();
    let sh = shared(1);
    let mut q = FuturesUnorderedBounded::new(1);
    q.push(FlagFut { id: 0, sh: sh.clone() });
    let t = {
        let sh = sh.clone();
        thread::spawn(move || {
            fire(&sh, How::WakeByRefDrop, false);
            fire(&sh, How::Wake, true);
        })
    };
    let mut ex = Exec::new(false);
    let got = ex.drain(&mut q, 0);
    t.join().unwrap();
    check_outputs(got, 1);
    drop(q);
    drop(ex);
    sh.wakers.lock().unwrap().clear();
    end_schedule(true);
}

/// C01: two threads hold clones of the same child's waker
fn c01_double_wake() {
    begin_schedule();
    let sh = shared(2);
    let mut q = FuturesUnorderedBounded::new(1);
    q.push(FlagFut { id: 0, sh: sh.clone() });
    // first poll parks two clones
    let mut ex = Exec::new(false);
    {
        let w = ex.waker();
        let mut cx = Context::from_waker(&w);
        assert!(Pin::new(&mut q).poll_next(&mut cx).is_pending());
    }
    let a = {
        let sh = sh.clone();
        thread::spawn(move || fire(&sh, How::Wake, true))
    };
    let b = {
        let sh = sh.clone();
        thread::spawn(move || fire(&sh, How::WakeByRefDrop, true))
    };
    let got = ex.drain(&mut q, 0);
    a.join().unwrap();
    b.join().unwrap();
    check_outputs(got, 1);
    drop(q);
    drop(ex);
    sh.wakers.lock().unwrap().clear();
    end_schedule(true);
}

/// C01: the consumer pushes a second child while a thread wakes the first
fn c01_wake_vs_push() {
    begin_schedule();
    let s0 = shared(1);
    let s1 = shared(1);
    let mut q = FuturesUnorderedBounded::new(2);
    q.push(FlagFut { id: 0, sh: s0.clone() });
    let mut ex = Exec::new(false);
    {
        let w = ex.waker();
        let mut cx = Context::from_waker(&w);
        assert!(Pin::new(&mut q).poll_next(&mut cx).is_pending());
    }
    let a = {
        let s0 = s0.clone();
        thread::spawn(move || fire(&s0, How::Wake, true))
    };
    q.push(FlagFut { id: 1, sh: s1.clone() });
    let b = {
        let s1 = s1.clone();
        thread::spawn(move || fire(&s1, How::Wake, true))
    };
    let got = ex.drain(&mut q, 0);
    a.join().unwrap();
    b.join().unwrap();
    check_outputs(got, 2);
    drop(q);
    drop(ex);
    s0.wakers.lock().unwrap().clear();
    s1.wakers.lock().unwrap().clear();
    end_schedule(true);
}

/// C01: a merge source fed two items and closed by a thread (re-arm after an item vs. concurrent wake)
fn c01_merge_feed() {
    begin_schedule();
    let sh = Arc::new(FedShared { items: Mutex::new(VecDeque::new()), closed: AtomicBool::new(false), waker: Mutex::new(None) });
    let mut m: MergeBounded<FedStream> = [FedStream { sh: sh.clone() }].into_iter().collect();
    let t = {
        let sh = sh.clone();
        thread::spawn(move || {
            feed(&sh, Some(0));
            feed(&sh, Some(1));
            feed(&sh, None);
        })
    };
    let mut ex = Exec::new(false);
    let got = ex.drain(&mut m, 0);
    t.join().unwrap();
    if got != vec![0, 1] {
        violation("merge-order", format!("merge yielded {:?}", got));
    }
    record_outcome(got);
    drop(m);
    drop(ex);
    *sh.waker.lock().unwrap() = None;
    end_schedule(true);
}

/// C01: the unbounded set with children in two groups, woken from two threads
fn c01_two_groups(fresh: bool) {
    begin_schedule();
    let s0 = shared(1);
    let s1 = shared(1);
    let mut q = FuturesUnordered::with_capacity(1);
    q.push(FlagFut { id: 0, sh: s0.clone() });
    q.push(FlagFut { id: 1, sh: s1.clone() }); // second group
    let a = {
        let s0 = s0.clone();
        thread::spawn(move || fire(&s0, How::Wake, true))
    };
    let b = {
        let s1 = s1.clone();
        thread::spawn(move || fire(&s1, How::Wake, true))
    };
    let mut ex = Exec::new(fresh);
    let got = ex.drain(&mut q, 0);
    a.join().unwrap();
    b.join().unwrap();
    check_outputs(got, 2);
    drop(q);
    drop(ex);
    s0.wakers.lock().unwrap().clear();
    s1.wakers.lock().unwrap().clear();
    end_schedule(true);
}
fn c01_two_groups_same() {
    c01_two_groups(false)
}
fn c01_two_groups_fresh() {
    c01_two_groups(true)
}

/// C01: join_all of two flag futures completed by two threads
fn c01_join_all2() {
    begin_schedule();
    let shs: Vec<Arc<Shared>> = (0..2).map(|_| shared(1)).collect();
    let mut j = join_all(shs.iter().enumerate().map(|(i, sh)| FlagFut { id: i as u32, sh: sh.clone() }));
    let hs: Vec<_> = shs
        .iter()
        .map(|sh| {
            let sh = sh.clone();
            thread::spawn(move || fire(&sh, How::Wake, true))
        })
        .collect();
    let mut ex = Exec::new(false);
    let got = ex.block_on(&mut j);
    for h in hs {
        h.join().unwrap();
    }
    if got != vec![0, 1] {
        violation("wrong-outputs", format!("join_all resolved to {:?}", got));
    }
    record_outcome(got);
    drop(j);
    drop(ex);
    for sh in &shs {
        sh.wakers.lock().unwrap().clear();
    }
    end_schedule(true);
}

/// C01: the ordered bounded queue; the two children complete on two threads in either order
fn c01_ordered2() {
    begin_schedule();
    let shs: Vec<Arc<Shared>> = (0..2).map(|_| shared(1)).collect();
    let mut q = FuturesOrderedBounded::new(2);
    for (i, sh) in shs.iter().enumerate() {
        q.push_back(FlagFut { id: i as u32, sh: sh.clone() });
    }
    let hs: Vec<_> = shs
        .iter()
        .map(|sh| {
            let sh = sh.clone();
            thread::spawn(move || fire(&sh, How::Wake, true))
        })
        .collect();
    let mut ex = Exec::new(false);
    let got = ex.drain(&mut q, 0);
    for h in hs {
        h.join().unwrap();
    }
    if got != vec![0, 1] {
        violation("wrong-outputs", format!("ordered queue yielded {:?}", got));
    }
    record_outcome(got);
    drop(q);
    drop(ex);
    for sh in &shs {
        sh.wakers.lock().unwrap().clear();
    }
    end_schedule(true);
}

/// C01: buffered_unordered(2) over an upstream of two futures completed by two threads
fn c01_buffered2() {
    begin_schedule();
    let shs: Vec<Arc<Shared>> = (0..2).map(|_| shared(1)).collect();
    let up = ReadyUp(shs.iter().enumerate().map(|(i, sh)| FlagFut { id: i as u32, sh: sh.clone() }).collect());
    let mut b = up.buffered_unordered(2);
    let hs: Vec<_> = shs
        .iter()
        .map(|sh| {
            let sh = sh.clone();
            thread::spawn(move || fire(&sh, How::Wake, true))
        })
        .collect();
    let mut ex = Exec::new(true);
    let got = ex.drain(&mut b, 0);
    for h in hs {
        h.join().unwrap();
    }
    check_outputs(got, 2);
    drop(b);
    drop(ex);
    for sh in &shs {
        sh.wakers.lock().unwrap().clear();
    }
    end_schedule(true);
}

// ---- C03

/// thread: take the waker, clone, wake_by_ref, drop both; consumer: poll once, drop the collection
fn c03_clone_wake_drop_vs_drop() {
    begin_schedule();
    let sh = shared(1);
    let mut q = FuturesUnorderedBounded::new(1);
    q.push(FlagFut { id: 0, sh: sh.clone() });
    let mut ex = Exec::new(false);
    {
        let w = ex.waker();
        let mut cx = Context::from_waker(&w);
        assert!(Pin::new(&mut q).poll_next(&mut cx).is_pending());
    }
    let t = {
        let sh = sh.clone();
        thread::spawn(move || {
            let w = sh.wakers.lock().unwrap().pop();
            if let Some(w) = w {
                let c = w.clone();
                c.wake_by_ref();
                drop(w);
                drop(c);
            }
        })
    };
    {
        let w = ex.waker();
        let mut cx = Context::from_waker(&w);
        let _ = Pin::new(&mut q).poll_next(&mut cx);
    }
    drop(q);
    COLLECTION_GONE.store(1, O::Relaxed);
    t.join().unwrap();
    drop(ex);
    sh.wakers.lock().unwrap().clear();
    end_schedule(true);
}

/// the collection and two waker clones die on three threads: exactly one of them frees the block
fn c03_last_drop_race() {
    begin_schedule();
    let sh = shared(2);
    let mut q = FuturesUnorderedBounded::new(1);
    q.push(FlagFut { id: 0, sh: sh.clone() });
    let mut ex = Exec::new(false);
    {
        let w = ex.waker();
        let mut cx = Context::from_waker(&w);
        assert!(Pin::new(&mut q).poll_next(&mut cx).is_pending());
    }
    let a = {
        let sh = sh.clone();
        thread::spawn(move || fire(&sh, How::DropOnly, false))
    };
    let b = {
        let sh = sh.clone();
        thread::spawn(move || fire(&sh, How::Wake, false))
    };
    drop(q);
    COLLECTION_GONE.store(1, O::Relaxed);
    a.join().unwrap();
    b.join().unwrap();
    drop(ex);
    end_schedule(true);
}

/// a thread invokes the waker while the collection dies; the block is later freed by whoever is last
fn c03_wake_vs_collection_drop(how: How) {
    begin_schedule();
    let sh = shared(1);
    let mut q = FuturesUnorderedBounded::new(2);
    q.push(FlagFut { id: 0, sh: sh.clone() });
    let mut ex = Exec::new(false);
    {
        let w = ex.waker();
        let mut cx = Context::from_waker(&w);
        assert!(Pin::new(&mut q).poll_next(&mut cx).is_pending());
    }
    let t = {
        let sh = sh.clone();
        thread::spawn(move || fire(&sh, how, true))
    };
    drop(q);
    COLLECTION_GONE.store(1, O::Relaxed);
    t.join().unwrap();
    drop(ex);
    end_schedule(true);
}
fn c03_wake_vs_drop() {
    c03_wake_vs_collection_drop(How::Wake)
}
fn c03_wake_by_ref_vs_drop() {
    c03_wake_vs_collection_drop(How::WakeByRefDrop)
}
fn c03_clone_wake_vs_drop() {
    c03_wake_vs_collection_drop(How::CloneWakeDropOrig)
}

/// the waker of a finished child is invoked from a thread after its slot was given to a new child
fn c03_stale_after_reuse() {
    begin_schedule();
    let s0 = shared(1);
    let s1 = shared(1);
    let mut q = FuturesUnorderedBounded::new(1);
    q.push(FlagFut { id: 0, sh: s0.clone() });
    let mut ex = Exec::new(false);
    {
        let w = ex.waker();
        let mut cx = Context::from_waker(&w);
        assert!(Pin::new(&mut q).poll_next(&mut cx).is_pending());
    }
    // keep a stale clone of child 0's waker, then complete child 0 on this thread
    let stale = s0.wakers.lock().unwrap()[0].clone();
    fire(&s0, How::Wake, true);
    {
        let w = ex.waker();
        let mut cx = Context::from_waker(&w);
        match Pin::new(&mut q).poll_next(&mut cx) {
            Poll::Ready(Some(0)) => {}
            _ => violation("wrong-outputs", "child 0 not yielded".into()),
        }
    }
    q.push(FlagFut { id: 1, sh: s1.clone() }); // reuses slot 0
    let t = thread::spawn(move || stale.wake());
    let u = {
        let s1 = s1.clone();
        thread::spawn(move || fire(&s1, How::Wake, true))
    };
    let got = ex.drain(&mut q, 0);
    t.join().unwrap();
    u.join().unwrap();
    if got != vec![1] {
        violation("wrong-outputs", format!("{:?}", got));
    }
    record_outcome(got);
    drop(q);
    drop(ex);
    s0.wakers.lock().unwrap().clear();
    s1.wakers.lock().unwrap().clear();
    end_schedule(true);
}

/// the stale waker of a finished child is invoked on a thread *while* the owner pushes a new child
/// into the very same slot (both go for the slot's queued flag and the queue)
fn c03_stale_vs_push() {
    begin_schedule();
    let s0 = shared(1);
    let s1 = shared(1);
    let mut q = FuturesUnorderedBounded::new(1);
    q.push(FlagFut { id: 0, sh: s0.clone() });
    let mut ex = Exec::new(false);
    {
        let w = ex.waker();
        let mut cx = Context::from_waker(&w);
        assert!(Pin::new(&mut q).poll_next(&mut cx).is_pending());
    }
    let stale = s0.wakers.lock().unwrap()[0].clone();
    fire(&s0, How::Wake, true);
    {
        let w = ex.waker();
        let mut cx = Context::from_waker(&w);
        match Pin::new(&mut q).poll_next(&mut cx) {
            Poll::Ready(Some(0)) => {}
            _ => violation("wrong-outputs", "child 0 not yielded".into()),
        }
    }
    let t = thread::spawn(move || stale.wake());
    q.push(FlagFut { id: 1, sh: s1.clone() }); // reuses slot 0, racing with the stale wake
    let u = {
        let s1 = s1.clone();
        thread::spawn(move || fire(&s1, How::Wake, true))
    };
    let got = ex.drain(&mut q, 0);
    t.join().unwrap();
    u.join().unwrap();
    if got != vec![1] {
        violation("wrong-outputs", format!("{:?}", got));
    }
    record_outcome(got);
    drop(q);
    drop(ex);
    s0.wakers.lock().unwrap().clear();
    s1.wakers.lock().unwrap().clear();
    end_schedule(true);
}

/// unbounded set: a waker into a group that the consumer's poll discards concurrently
fn c03_group_discard() {
    begin_schedule();
    let s0 = shared(2);
    let s1 = shared(1);
    let mut q = FuturesUnordered::with_capacity(1);
    q.push(FlagFut { id: 0, sh: s0.clone() }); // group 0 (capacity 1)
    q.push(FlagFut { id: 1, sh: s1.clone() }); // group 1 (capacity 2)
    let mut ex = Exec::new(false);
    {
        let w = ex.waker();
        let mut cx = Context::from_waker(&w);
        assert!(Pin::new(&mut q).poll_next(&mut cx).is_pending());
    }
    // complete child 0 here; one clone of its waker stays behind as a stale waker into group 0
    fire(&s0, How::Wake, true);
    let stale = s0.wakers.lock().unwrap().pop().unwrap();
    let t = thread::spawn(move || {
        stale.wake_by_ref();
        drop(stale);
    });
    let u = {
        let s1 = s1.clone();
        thread::spawn(move || fire(&s1, How::Wake, true))
    };
    // draining yields child 0, then discards the empty group 0 while `t` may be inside it
    let got = ex.drain(&mut q, 0);
    t.join().unwrap();
    u.join().unwrap();
    check_outputs(got, 2);
    drop(q);
    drop(ex);
    s0.wakers.lock().unwrap().clear();
    s1.wakers.lock().unwrap().clear();
    end_schedule(true);
}

fn scenarios(prop: &str, tier: &str) -> Vec<(&'static str, Scn)> {
    let thorough = tier == "thorough";
    let mut v: Vec<(&'static str, Scn)> = vec![];
    match prop {
        "C01" => {
            v.push(("c01_wake_cap1", c01_wake_cap1));
            v.push(("c01_wake_by_ref_cap1", c01_wake_by_ref_cap1));
            v.push(("c01_clone_wake_cap1", c01_clone_wake_cap1));
            v.push(("c01_new_waker_each_poll_cap1", c01_new_waker_each_poll_cap1));
            v.push(("c01_wake_cap2", c01_wake_cap2));
            v.push(("c01_new_waker_each_poll_cap2", c01_new_waker_each_poll_cap2));
            v.push(("c01_double_wake", c01_double_wake));
            v.push(("c01_spurious_then_real", c01_spurious_then_real));
            v.push(("c01_wake_vs_push", c01_wake_vs_push));
            v.push(("c01_merge_feed", c01_merge_feed));
            v.push(("c01_two_groups_same", c01_two_groups_same));
            v.push(("c01_two_groups_fresh", c01_two_groups_fresh));
            v.push(("c01_join_all2", c01_join_all2));
            v.push(("c01_ordered2", c01_ordered2));
            v.push(("c01_buffered2", c01_buffered2));
            if thorough {
                v.push(("c01_wake_cap3", c01_wake_cap3));
            }
        }
        "C03" => {
            v.push(("c03_clone_wake_drop_vs_drop", c03_clone_wake_drop_vs_drop));
            v.push(("c03_last_drop_race", c03_last_drop_race));
            v.push(("c03_wake_vs_drop", c03_wake_vs_drop));
            v.push(("c03_wake_by_ref_vs_drop", c03_wake_by_ref_vs_drop));
            v.push(("c03_clone_wake_vs_drop", c03_clone_wake_vs_drop));
            v.push(("c03_stale_after_reuse", c03_stale_after_reuse));
            v.push(("c03_stale_vs_push", c03_stale_vs_push));
            v.push(("c03_group_discard", c03_group_discard));
        }
        _ => {}
    }
    v
}

fn main() {
    let args: Vec<String> = std::env::args().collect();
    let cmd = args.get(1).map(|s| s.as_str()).unwrap_or("");
    match cmd {
        "list" => {
            for (n, _) in scenarios(&args[2], args.get(3).map(|s| s.as_str()).unwrap_or("quick")) {
                println!("{}", n);
            }
        }
        "run" => {
            let name = &args[2];
            let tier = args.get(3).map(|s| s.as_str()).unwrap_or("quick");
            let all: Vec<(&'static str, Scn)> = scenarios("C01", "thorough").into_iter().chain(scenarios("C03", "thorough")).collect();
            let Some((_, f)) = all.into_iter().find(|(n, _)| n == name) else {
                eprintln!("no such scenario");
                std::process::exit(2);
            };
            let _ = tier;
            futures_buffered::verif::install(probe_alloc, probe_release, probe_vtable);
            let b = loom::model::Builder::new();
            let t0 = std::time::Instant::now();
            b.check(f);
            // loom stops silently when LOOM_MAX_DURATION is exceeded: say so, such a run is not exhaustive
            let capped = b.max_duration.map_or(false, |d| t0.elapsed() >= d);
            println!(
                "LX-OK schedules={} outcomes={} capped={} bound={}",
                SCHEDULES.load(O::Relaxed),
                OUTCOMES.lock().unwrap().len() + RELEASE_OUTCOMES.lock().unwrap().len(),
                capped as u8,
                b.preemption_bound.map_or(-1, |x| x as i64)
            );
        }
        _ => {
            eprintln!("usage: lx list <Cxx> <tier> | lx run <scenario> <tier>");
            std::process::exit(2);
        }
    }
}
