//! The scenarios of every property: which subjects, which alphabet, which bounds, which epilogue.
//! (C03's layout sweep, C13's populations and C18's unbounded words live in special.rs.)

use crate::exec::{ops, Cfg, ChildSpec, Epilogue};
use crate::subjects::Kind;
use crate::world::{HintShape, Mode};

fn f(m: Mode) -> ChildSpec {
    ChildSpec::fut(m)
}
fn s(x: &str) -> ChildSpec {
    ChildSpec::stream(x)
}

/// family U: the unordered collections in small shapes (kind, number of prefilled Gate children)
fn family_u() -> Vec<(Kind, usize)> {
    vec![
        (Kind::Fub(0), 0),
        (Kind::Fub(1), 0),
        (Kind::Fub(2), 0),
        (Kind::Fub(3), 0),
        (Kind::FubIter(2), 2),
        (Kind::FuNew, 0),
        (Kind::FuCap(1), 0),
        (Kind::FuCap(2), 0),
        (Kind::FuIter(2), 2),
        (Kind::FubZ(2), 0),
        (Kind::FuZ(1), 0),
    ]
}
fn family_o() -> Vec<(Kind, usize)> {
    vec![
        (Kind::Fob(0), 0),
        (Kind::Fob(1), 0),
        (Kind::Fob(2), 0),
        (Kind::Fob(3), 0),
        (Kind::FobIter(2), 2),
        (Kind::FoNew, 0),
        (Kind::FoCap(1), 0),
        (Kind::FoCap(2), 0),
        (Kind::FoIter(2), 2),
    ]
}
/// a smaller cut of U and O for the properties whose alphabet is wide
fn family_uo_small() -> Vec<(Kind, usize)> {
    vec![
        (Kind::Fub(1), 0),
        (Kind::Fub(2), 0),
        (Kind::FubIter(2), 2),
        (Kind::FuNew, 0),
        (Kind::FuCap(1), 0),
        (Kind::Fob(1), 0),
        (Kind::Fob(2), 0),
        (Kind::FoNew, 0),
        (Kind::FoCap(1), 0),
    ]
}

fn merge_scripts() -> Vec<ChildSpec> {
    vec![s("I"), s("P"), s(""), s("IP"), s("PI"), s("II"), s("w"), s("I!"), s("JP"), s("J")]
}

/// family M: (kind, prefilled source scripts)
fn family_m() -> Vec<(Kind, Vec<ChildSpec>)> {
    vec![
        (Kind::Mb(0), vec![]),
        (Kind::Mb(1), vec![s("IP")]),
        (Kind::Mb(2), vec![s("I"), s("PI")]),
        (Kind::Mb(2), vec![s("P"), s("II")]),
        (Kind::Mb(3), vec![s("IPI"), s(""), s("P")]),
        (Kind::Mb(2), vec![s("I!"), s("P!")]),
        (Kind::Mb(2), vec![s("JPJ"), s("P")]),
        (Kind::Mb(3), vec![s("JJ"), s("PJ"), s("J")]),
        (Kind::Mu(2), vec![s("!"), s("PI!")]),
        (Kind::Mu(0), vec![]),
        (Kind::Mu(2), vec![s("IP"), s("PI")]),
        (Kind::MuIter(0), vec![]),
        (Kind::MuIter(1), vec![s("IP")]),
        (Kind::MuIter(3), vec![s("I"), s(""), s("PI")]),
    ]
}

fn mu_prefilled(n: usize, special: &[(usize, &str)]) -> (Kind, Vec<ChildSpec>) {
    let mut v: Vec<ChildSpec> = (0..n).map(|_| s("P")).collect();
    for (i, sc) in special {
        v[*i] = s(sc);
    }
    (Kind::Mu(n), v)
}

/// representative children of a large prefilled population: first, around the per-poll budget, last
fn focus_of(n: usize) -> Option<Vec<u32>> {
    if n <= 8 {
        return None;
    }
    let mut v: Vec<u32> = vec![0, 31, 32, 60, 61, 62, (n - 1) as u32];
    v.retain(|&x| (x as usize) < n);
    v.dedup();
    Some(v)
}

fn adapters(ns: &[usize]) -> Vec<Kind> {
    let mut v = vec![];
    for &n in ns {
        v.push(Kind::Bu(n));
        v.push(Kind::Bo(n));
        v.push(Kind::Tbu(n));
        v.push(Kind::Tbo(n));
        v.push(Kind::Fec(n));
        if n == 2 {
            // futures with a zero-sized output through the ordered adapter
            v.push(Kind::BoZ(n));
        }
    }
    v
}

fn adapter_cfg(prop: &'static str, k: Kind, up_len: usize, hint: HintShape, depth: usize, delta: usize) -> Cfg {
    let mut c = Cfg::new(prop, k);
    c.name = format!("{:?} upstream_len={} hint={:?}", k, up_len, hint);
    c.up_len = up_len;
    c.hint = hint;
    c.ops = ops::POLL | ops::POLL_NEW | ops::COMPLETE | ops::FEED_UP;
    c.costly = ops::POLL_NEW;
    c.depth = depth;
    c.delta = delta;
    c.epilogue = Epilogue::Drain;
    c
}

/// all prefill vectors of length n over the given specs
fn all_vectors(n: usize, specs: &[ChildSpec]) -> Vec<Vec<ChildSpec>> {
    let mut out: Vec<Vec<ChildSpec>> = vec![vec![]];
    for _ in 0..n {
        let mut next = vec![];
        for v in &out {
            for sp in specs {
                let mut w = v.clone();
                w.push(sp.clone());
                next.push(w);
            }
        }
        out = next;
    }
    out
}

fn join_cfgs(prop: &'static str, max_n: usize, depth: usize, post: usize, epi: Epilogue) -> Vec<Cfg> {
    let mut v = vec![];
    for variant in 0..4 {
        let plain = variant == 1;
        let nd = variant == 2;
        let inexact = variant == 3;
        for n in 0..=max_n {
            for pre in all_vectors(n, &[f(Mode::Gate), f(Mode::Ready)]) {
                let mut c = Cfg::new(prop, if plain { Kind::JaP(n) } else if nd { Kind::JaN(n) } else { Kind::Ja(n) });
                c.name = format!("join_all{}[{}]", if plain { "<plain output>" } else if nd { "<future without drop glue>" } else if inexact { "<inputs via filter()>" } else { "" }, pre.iter().map(|p| p.render()).collect::<Vec<_>>().join(","));
                c.prefill = pre;
                c.inexact_iter = inexact;
                c.ops = ops::POLL | ops::COMPLETE | ops::WAKE;
                c.costly = ops::WAKE;
                c.delta = 1;
                c.depth = depth;
                c.post_ready_polls = post;
                c.epilogue = epi;
                v.push(c);
            }
            let tn = n.min(3.max(max_n.saturating_sub(1)));
            if n > tn {
                continue;
            }
            for pre in all_vectors(n, &[f(Mode::Gate), f(Mode::Ready), ChildSpec::failing(Mode::Gate), ChildSpec::failing(Mode::Ready)]) {
                let mut c = Cfg::new(prop, if plain { Kind::TjaP(n) } else if nd { Kind::TjaN(n) } else { Kind::Tja(n) });
                c.name = format!("try_join_all{}[{}]", if plain { "<plain output>" } else if nd { "<future without drop glue>" } else if inexact { "<inputs via filter()>" } else { "" }, pre.iter().map(|p| p.render()).collect::<Vec<_>>().join(","));
                c.prefill = pre;
                c.inexact_iter = inexact;
                c.ops = ops::POLL | ops::COMPLETE | ops::WAKE;
                c.costly = ops::WAKE;
                c.delta = 1;
                c.depth = depth;
                c.post_ready_polls = post;
                c.epilogue = epi;
                v.push(c);
            }
        }
    }
    v
}

const SEEDS: [usize; 11] = [
    0,
    1,
    2,
    (1usize << 63) - 2,
    (1usize << 63) - 1,
    1usize << 63,
    (1usize << 63) + 1,
    (1usize << 63) + 2,
    usize::MAX - 2,
    usize::MAX - 1,
    usize::MAX,
];

/// The Miri slice (thorough tier of the memory-safety properties): the same kind of histories,
/// small enough to be enumerated under the interpreter, which then is the per-execution oracle for
/// use-after-free, double free, uninitialised reads and data races that the probes cannot see.
fn miri_scenarios(prop: &str) -> Vec<Cfg> {
    let mut v = vec![];
    match prop {
        "C03" => {
            for (k, pre) in [(Kind::Fub(1), 1usize), (Kind::Fub(2), 2), (Kind::FuCap(1), 2), (Kind::Mb(1), 1)] {
                for pre_polls in [0usize, 1] {
                    let mut c = Cfg::new("C03", k);
                    c.name = format!("miri {:?} prefill {} pre-polled {}", k, pre, pre_polls);
                    c.prefill = (0..pre).map(|i| if k.is_merge() { s("PI") } else { f(if i == 1 { Mode::Ready } else { Mode::Gate }) }).collect();
                    c.pre_polls = pre_polls;
                    c.ops = ops::POLL | ops::COMPLETE | ops::WAKER_POOL | ops::DROP_SUBJECT | ops::STALE_WAKE;
                    // the interpreter is ~10^4 times slower: the orders in which the owners die are
                    // the point here, polls/completions/stale wakes are rationed
                    c.costly = ops::POLL | ops::COMPLETE | ops::STALE_WAKE;
                    c.delta = 1;
                    c.pool_max = 1;
                    c.depth = 4;
                    c.epilogue = Epilogue::DropNow;
                    v.push(c);
                }
            }
        }
        "C07" | "C06" => {
            let p: &'static str = if prop == "C07" { "C07" } else { "C06" };
            for mut c in join_cfgs(p, 2, 5, 2, if prop == "C07" { Epilogue::Drain } else { Epilogue::DropNow }) {
                c.name = format!("miri {}", c.name);
                c.delta = 0;
                v.push(c);
            }
            if prop == "C06" {
                for k in [Kind::Fob(2), Kind::FoCap(1), Kind::Bo(2), Kind::Tbu(1)] {
                    let mut c = if k.is_adapter() { adapter_cfg("C06", k, 2, HintShape::Exact, 4, 1) } else { Cfg::new("C06", k) };
                    c.name = format!("miri {:?}", k);
                    if !k.is_adapter() {
                        c.specs = vec![f(Mode::Gate), f(Mode::Ready)];
                        c.ops = ops::PUSH | ops::PUSH_FRONT | ops::POLL | ops::COMPLETE;
                        c.depth = 4;
                    }
                    c.epilogue = Epilogue::DropNow;
                    v.push(c);
                }
            }
        }
        _ => {}
    }
    v
}

pub fn scenarios(prop: &str, tier: &str) -> Vec<Cfg> {
    if tier == "miri" {
        return miri_scenarios(prop);
    }
    let thorough = tier == "thorough";
    let mut v = vec![];
    match prop {
        // ------------------------------------------------------------------------------------ C01
        "C01" => {
            let d = if thorough { 8 } else { 6 };
            for (k, pre) in family_uo_small() {
                let mut c = Cfg::new("C01", k);
                c.prefill = (0..pre).map(|_| f(Mode::Gate)).collect();
                c.specs = vec![f(Mode::Gate), f(Mode::Ready), f(Mode::Yield1), f(Mode::YieldInf), f(Mode::Relay)];
                c.ops = ops::PUSH | ops::POLL | ops::POLL_NEW | ops::POLL_HOOK | ops::COMPLETE | ops::WAKE | ops::STALE_WAKE;
                if k.is_ordered() {
                    c.ops |= ops::PUSH_FRONT;
                }
                c.costly = ops::STALE_WAKE | ops::PUSH | ops::POLL_NEW;
                c.delta = 2;
                c.depth = d;
                c.epilogue = Epilogue::Drain;
                v.push(c);
            }
            // more children than the per-poll budget, and children in two or three groups
            let dd = if thorough { 5 } else { 4 };
            for (k, n, m) in [
                (Kind::Fub(130), 61, Mode::Gate),
                (Kind::Fub(130), 123, Mode::Gate),
                (Kind::Fub(130), 62, Mode::Yield1),
                (Kind::Fub(130), 63, Mode::Gate),
                (Kind::Fub(130), 130, Mode::Gate),
                (Kind::Fub(130), 130, Mode::Yield1),
                (Kind::FuNew, 70, Mode::Gate),
                (Kind::FuNew, 70, Mode::Yield1),
                (Kind::FuCap(1), 3, Mode::Gate),
                (Kind::FuCap(1), 7, Mode::Gate),
                (Kind::FoCap(1), 7, Mode::Gate),
                (Kind::FoNew, 70, Mode::Yield1),
            ] {
                let mut c = Cfg::new("C01", k);
                c.name = format!("{:?} prefilled {}x{:?}", k, n, m);
                c.prefill = (0..n).map(|_| f(m)).collect();
                c.specs = vec![f(Mode::Gate), f(Mode::Yield1)];
                c.ops = ops::PUSH | ops::POLL | ops::POLL_NEW | ops::COMPLETE | ops::WAKE;
                c.costly = ops::COMPLETE | ops::WAKE | ops::POLL_NEW;
                c.delta = 1;
                c.depth = dd;
                c.epilogue = Epilogue::Drain;
                c.horizon = 2000;
                c.focus = focus_of(c.prefill.len());
                v.push(c);
            }
            for (k, pre) in family_m() {
                let mut c = Cfg::new("C01", k);
                c.name = format!("{:?}[{}]", k, pre.iter().map(|p| p.render()).collect::<Vec<_>>().join(","));
                c.prefill = pre;
                c.specs = vec![s("P"), s("IP"), s("w")];
                c.ops = ops::POLL | ops::POLL_NEW | ops::POLL_HOOK | ops::COMPLETE | ops::WAKE | ops::STALE_WAKE;
                if matches!(k, Kind::Mu(_) | Kind::MuIter(_)) {
                    c.ops |= ops::PUSH;
                }
                c.costly = ops::STALE_WAKE | ops::POLL_NEW | ops::PUSH;
                c.delta = 2;
                c.depth = d;
                c.epilogue = Epilogue::Drain;
                v.push(c);
            }
            {
                let (k, pre) = mu_prefilled(34, &[(0, "IP"), (33, "PI")]);
                let mut c = Cfg::new("C01", k);
                c.name = "Mu(34) two groups".into();
                c.prefill = pre;
                c.ops = ops::POLL | ops::POLL_NEW | ops::COMPLETE | ops::WAKE;
                c.costly = ops::WAKE | ops::COMPLETE | ops::POLL_NEW;
                c.delta = 2;
                c.depth = dd;
                c.epilogue = Epilogue::Drain;
                c.horizon = 2000;
                c.focus = focus_of(c.prefill.len());
                v.push(c);
            }
            for k in adapters(&[1, 2]) {
                let mut c = adapter_cfg("C01", k, 3, HintShape::Exact, d, 2);
                c.ops |= ops::WAKE | ops::POLL_NEW | ops::STALE_WAKE | ops::POLL_HOOK;
                c.costly = ops::WAKE | ops::POLL_NEW | ops::STALE_WAKE;
                v.push(c);
            }
            for mut c in join_cfgs("C01", 2, d, 0, Epilogue::Drain) {
                c.ops |= ops::POLL_NEW;
                c.costly |= ops::POLL_NEW;
                c.delta = 2;
                v.push(c);
            }
        }
        // ------------------------------------------------------------------------------------ C02
        "C02" => {
            let d = if thorough { 8 } else { 7 };
            for (k, pre) in family_u().into_iter().chain(family_o()) {
                let mut c = Cfg::new("C02", k);
                c.prefill = (0..pre).map(|_| f(Mode::Gate)).collect();
                c.specs = vec![f(Mode::Gate), f(Mode::Ready), f(Mode::Yield1), f(Mode::WakeReady), f(Mode::PanicOnce)];
                c.ops = ops::PUSH | ops::POLL | ops::POLL_NEW | ops::COMPLETE | ops::WAKE | ops::STALE_WAKE | ops::PUSH_WHEN_FULL;
                if k.is_ordered() {
                    c.ops |= ops::PUSH_FRONT;
                }
                c.costly = ops::WAKE | ops::STALE_WAKE | ops::PUSH_WHEN_FULL | ops::PUSH | ops::POLL_NEW;
                c.delta = 2;
                c.depth = d;
                c.epilogue = Epilogue::Drain;
                v.push(c);
            }
            // growth across many groups and slot reuse: start from populated multi-group states
            for (k, n) in [(Kind::FuCap(1), 7), (Kind::FoCap(1), 7), (Kind::FuNew, 33), (Kind::FoNew, 33)] {
                let mut c = Cfg::new("C02", k);
                c.name = format!("{:?} prefilled {}", k, n);
                c.prefill = (0..n).map(|i| f(if i % 3 == 1 { Mode::Ready } else { Mode::Gate })).collect();
                c.specs = vec![f(Mode::Gate), f(Mode::Ready)];
                c.ops = ops::PUSH | ops::POLL | ops::COMPLETE | ops::STALE_WAKE;
                c.costly = ops::STALE_WAKE;
                c.delta = 1;
                c.depth = if thorough { 5 } else { 4 };
                c.epilogue = Epilogue::Drain;
                c.horizon = 1000;
                c.focus = focus_of(c.prefill.len());
                v.push(c);
            }
        }
        // ------------------------------------------------------------------------------------ C03 (histories; the layout sweep is in special.rs)
        "C03" => {
            let d = if thorough { 7 } else { 6 };
            for (k, pre) in [
                (Kind::Fub(1), 0),
                (Kind::Fub(2), 0),
                (Kind::FubIter(2), 2),
                (Kind::FuCap(1), 0),
                (Kind::FuCap(1), 3),
                (Kind::FuNew, 0),
                (Kind::Fob(2), 0),
                (Kind::Mb(2), 2),
                (Kind::Mb(3), 3),
            ] {
                let mut c = Cfg::new("C03", k);
                c.name = format!("{:?} prefill {}", k, pre);
                c.prefill = (0..pre).map(|i| if k.is_merge() { s(if i == 2 { "I~" } else { "PI" }) } else { f(Mode::Gate) }).collect();
                c.specs = if k.is_merge() { vec![] } else { vec![f(Mode::Gate), f(Mode::Ready), f(Mode::PanicOnce), f(Mode::DropPanic)] };
                c.ops = ops::POLL | ops::COMPLETE | ops::WAKER_POOL | ops::DROP_SUBJECT | ops::STALE_WAKE | ops::DROP_ON_WAKE;
                if !k.is_merge() {
                    c.ops |= ops::PUSH;
                }
                c.costly = ops::PUSH | ops::DROP_ON_WAKE;
                c.delta = 2;
                c.depth = d;
                c.epilogue = Epilogue::DropNow;
                v.push(c);
            }
        }
        // ------------------------------------------------------------------------------------ C04
        "C04" => {
            let d = if thorough { 7 } else { 6 };
            for (k, pre) in [(Kind::Fob(2), 0), (Kind::Fob(3), 0), (Kind::FoNew, 0), (Kind::FoCap(1), 0), (Kind::FobIter(3), 3), (Kind::FoIter(3), 3)] {
                let seeds: Vec<Option<usize>> = if pre == 0 { SEEDS.iter().map(|s| Some(*s)).collect() } else { vec![None] };
                for seed in seeds {
                    let mut c = Cfg::new("C04", k);
                    c.name = format!("{:?} seed={:?}", k, seed.map(|s| format!("{:#x}", s)));
                    c.prefill = (0..pre).map(|_| f(Mode::Gate)).collect();
                    c.seed = seed;
                    c.specs = vec![f(Mode::Gate), f(Mode::Ready)];
                    c.ops = ops::PUSH | ops::PUSH_FRONT | ops::POLL | ops::COMPLETE | ops::EXTEND;
                    c.depth = d;
                    c.epilogue = Epilogue::Drain;
                    v.push(c);
                }
            }
            for k in [Kind::Bo(1), Kind::Bo(2), Kind::Bo(3), Kind::Tbo(1), Kind::Tbo(2), Kind::Tbo(3), Kind::BoZ(2)] {
                v.push(adapter_cfg("C04", k, 4, HintShape::Exact, d + 1, 3));
            }
            let jn = if thorough { 5 } else { 4 };
            for n in 0..=jn {
                // all completion orders: every input a Gate, or ready from the start
                let specs = [f(Mode::Gate), f(Mode::Ready)];
                for pre in all_vectors(n, &specs) {
                    for kind in [Kind::Ja(n), Kind::Tja(n)] {
                        let mut c = Cfg::new("C04", kind);
                        c.name = format!("{:?}[{}]", kind, pre.iter().map(|p| p.render()).collect::<Vec<_>>().join(","));
                        c.prefill = pre.clone();
                        c.ops = ops::POLL | ops::COMPLETE;
                        c.depth = 2 * n + 1;
                        c.epilogue = Epilogue::Drain;
                        v.push(c);
                    }
                }
            }
        }
        // ------------------------------------------------------------------------------------ C05
        "C05" => {
            let d = if thorough { 9 } else { 7 };
            for (k, pre) in family_uo_small() {
                let mut c = Cfg::new("C05", k);
                c.prefill = (0..pre).map(|_| f(Mode::Gate)).collect();
                c.specs = vec![f(Mode::Gate), f(Mode::WakeReady), f(Mode::Relay), f(Mode::Yield1), f(Mode::PanicOnce)];
                c.ops = ops::PUSH | ops::POLL | ops::POLL_NEW | ops::COMPLETE | ops::STALE_WAKE | ops::WAKE;
                if k.is_ordered() {
                    c.ops |= ops::PUSH_FRONT;
                }
                c.costly = ops::WAKE | ops::POLL_NEW | ops::PUSH;
                c.delta = 2;
                c.depth = d;
                c.epilogue = Epilogue::Drain;
                v.push(c);
            }
            for k in [Kind::FubZ(1), Kind::FubZ(2), Kind::FuZ(1)] {
                let mut c = Cfg::new("C05", k);
                c.name = format!("{:?} (zero-sized futures)", k);
                c.specs = vec![f(Mode::Gate), f(Mode::Ready), f(Mode::WakeReady)];
                c.ops = ops::PUSH | ops::POLL | ops::COMPLETE | ops::STALE_WAKE;
                c.depth = d;
                c.epilogue = Epilogue::Drain;
                v.push(c);
            }
            for n in 1..=3usize {
                for pre in all_vectors(n, &[f(Mode::Gate), f(Mode::Ready)]) {
                    let mut c = Cfg::new("C05", Kind::JaZ(n));
                    c.name = format!("join_all<zero-sized futures>[{}]", pre.iter().map(|p| p.render()).collect::<Vec<_>>().join(","));
                    c.prefill = pre;
                    c.ops = ops::POLL | ops::COMPLETE;
                    c.depth = d;
                    c.post_ready_polls = 1;
                    c.epilogue = Epilogue::Drain;
                    v.push(c);
                }
            }
            for (k, pre) in family_m() {
                let mut c = Cfg::new("C05", k);
                c.name = format!("{:?}[{}]", k, pre.iter().map(|p| p.render()).collect::<Vec<_>>().join(","));
                c.prefill = pre;
                c.specs = vec![s(""), s("I"), s("P")];
                c.ops = ops::POLL | ops::COMPLETE | ops::STALE_WAKE | ops::WAKE;
                if matches!(k, Kind::Mu(_) | Kind::MuIter(_)) {
                    c.ops |= ops::PUSH;
                }
                c.costly = ops::WAKE;
                c.delta = 1;
                c.depth = d;
                c.epilogue = Epilogue::Drain;
                v.push(c);
            }
            // a merge whose capacity is recycled: a source ends, another one takes its slot
            {
                let mut c = Cfg::new("C05", Kind::Mb(2));
                c.name = "Mb(2) slot recycling".into();
                c.prefill = vec![s(""), s("P")];
                c.specs = vec![s("I"), s("P"), s("")];
                c.ops = ops::PUSH | ops::POLL | ops::COMPLETE | ops::STALE_WAKE;
                c.depth = d;
                c.epilogue = Epilogue::Drain;
                v.push(c);
            }
            // more sources ending within one poll than the per-poll budget, in one group
            for (k, n, sc) in [(Kind::Mb(64), 64usize, ""), (Kind::Mb(100), 100, "I"), (Kind::Mb(70), 70, "P"), (Kind::Mu(100), 100, ""), (Kind::Mu(100), 100, "I"), (Kind::Mu(100), 100, "PI")] {
                let mut c = Cfg::new("C05", k);
                c.name = format!("{:?} all sources {}E", k, sc);
                c.prefill = (0..n).map(|_| s(sc)).collect();
                c.ops = ops::POLL | ops::COMPLETE | ops::STALE_WAKE;
                c.costly = ops::COMPLETE | ops::STALE_WAKE;
                c.delta = 2;
                c.depth = 4;
                c.focus = focus_of(n);
                c.epilogue = Epilogue::Drain;
                c.horizon = 4000;
                v.push(c);
            }
            for (k, n) in [(Kind::Fub(100), 100usize), (Kind::FuNew, 100), (Kind::FoNew, 70)] {
                let mut c = Cfg::new("C05", k);
                c.name = format!("{:?} prefilled {} ready", k, n);
                c.prefill = (0..n).map(|i| f(if i % 2 == 0 { Mode::Ready } else { Mode::WakeReady })).collect();
                c.ops = ops::POLL | ops::STALE_WAKE;
                c.delta = 2;
                c.depth = 3;
                c.focus = focus_of(n);
                c.epilogue = Epilogue::Drain;
                c.horizon = 4000;
                v.push(c);
            }
            for k in adapters(&[1, 2]) {
                let mut c = adapter_cfg("C05", k, 3, HintShape::Exact, d, 2);
                c.ops |= ops::STALE_WAKE;
                v.push(c);
            }
            for mut c in join_cfgs("C05", 3, d, 1, Epilogue::Drain) {
                c.ops |= ops::STALE_WAKE;
                v.push(c);
            }
        }
        // ------------------------------------------------------------------------------------ C06
        "C06" => {
            let d = if thorough { 8 } else { 6 };
            for (k, pre) in family_u().into_iter().chain(family_o()) {
                let mut c = Cfg::new("C06", k);
                c.prefill = (0..pre).map(|_| f(Mode::Gate)).collect();
                c.specs = vec![f(Mode::Gate), f(Mode::Ready), f(Mode::Yield1), f(Mode::DropPanic), f(Mode::PanicOnce)];
                c.ops = ops::PUSH | ops::POLL | ops::COMPLETE | ops::PUSH_WHEN_FULL | ops::PANIC_PUSH | ops::WAKER_POOL;
                if k.is_ordered() {
                    c.ops |= ops::PUSH_FRONT;
                }
                c.costly = ops::PUSH_WHEN_FULL | ops::PANIC_PUSH | ops::WAKER_POOL | ops::PUSH;
                c.delta = 2;
                c.depth = d;
                c.epilogue = Epilogue::DropNow;
                v.push(c);
            }
            // zero-sized futures with a destructor
            for k in [Kind::FubZ(1), Kind::FubZ(2), Kind::FubZ(3), Kind::FuZ(1), Kind::FuZ(2)] {
                let mut c = Cfg::new("C06", k);
                c.name = format!("{:?} (zero-sized futures)", k);
                c.specs = vec![f(Mode::Gate), f(Mode::Ready)];
                c.ops = ops::PUSH | ops::POLL | ops::COMPLETE | ops::PUSH_WHEN_FULL;
                c.depth = d;
                c.epilogue = Epilogue::DropNow;
                v.push(c);
            }
            for n in 1..=3usize {
                for pre in all_vectors(n, &[f(Mode::Gate), f(Mode::Ready)]) {
                    let mut c = Cfg::new("C06", Kind::JaZ(n));
                    c.name = format!("join_all<zero-sized futures>[{}]", pre.iter().map(|p| p.render()).collect::<Vec<_>>().join(","));
                    c.prefill = pre;
                    c.ops = ops::POLL | ops::COMPLETE;
                    c.depth = d;
                    c.post_ready_polls = 1;
                    c.epilogue = Epilogue::DropNow;
                    v.push(c);
                }
            }
            for k in [Kind::FobN(2), Kind::FobN(3)] {
                let mut c = Cfg::new("C06", k);
                c.name = format!("{:?} (futures without drop glue)", k);
                c.specs = vec![f(Mode::Gate), f(Mode::Ready)];
                c.ops = ops::PUSH | ops::PUSH_FRONT | ops::POLL | ops::COMPLETE | ops::PUSH_WHEN_FULL;
                c.depth = d;
                c.epilogue = Epilogue::DropNow;
                v.push(c);
            }
            for (k, pre) in family_m() {
                let mut c = Cfg::new("C06", k);
                c.name = format!("{:?}[{}]", k, pre.iter().map(|p| p.render()).collect::<Vec<_>>().join(","));
                c.prefill = pre;
                c.specs = vec![s("I"), s("P"), s("I~"), s("~")];
                c.ops = ops::POLL | ops::COMPLETE | ops::PUSH | ops::PUSH_WHEN_FULL | ops::WAKER_POOL;
                c.costly = ops::PUSH_WHEN_FULL | ops::WAKER_POOL;
                c.delta = 2;
                c.depth = d;
                c.epilogue = Epilogue::DropNow;
                v.push(c);
            }
            for (k, pre) in [(Kind::Mb(2), vec![s("I~"), s("P")]), (Kind::Mb(3), vec![s("~"), s("IP~"), s("I")]), (Kind::Mu(2), vec![s("P~"), s("I~")])] {
                let mut c = Cfg::new("C06", k);
                c.name = format!("{:?}[{}] (panicking destructors)", k, pre.iter().map(|p| p.render()).collect::<Vec<_>>().join(","));
                c.prefill = pre;
                c.ops = ops::POLL | ops::COMPLETE | ops::WAKER_POOL;
                c.depth = d;
                c.epilogue = Epilogue::DropNow;
                v.push(c);
            }
            for k in adapters(&[1, 2, 3]) {
                for len in [0, 2, 4] {
                    let mut c = adapter_cfg("C06", k, len, HintShape::Exact, d, 2);
                    c.epilogue = Epilogue::DropNow;
                    v.push(c);
                }
            }
            v.extend(join_cfgs("C06", if thorough { 4 } else { 3 }, d, 1, Epilogue::DropNow));
            // many inputs finishing in one poll (at and around the per-poll budget), dropped at every point
            for n in [60usize, 61, 62, 122, 123] {
                for kind in [Kind::Ja(n), Kind::Tja(n)] {
                    for gate_last in [false, true] {
                        let mut c = Cfg::new("C06", kind);
                        c.name = format!("{:?} all ready{}", kind, if gate_last { " but the last" } else { "" });
                        c.prefill = (0..n).map(|i| f(if gate_last && i == n - 1 { Mode::Gate } else { Mode::Ready })).collect();
                        c.ops = ops::POLL | ops::COMPLETE;
                        c.focus = Some(vec![(n - 1) as u32]);
                        c.depth = 4;
                        c.post_ready_polls = 1;
                        c.epilogue = Epilogue::DropNow;
                        c.horizon = 4000;
                        v.push(c);
                    }
                }
            }
            // the iterator handed to a collecting constructor panics part-way: everything it had already
            // yielded must still be dropped exactly once
            for n in [2usize, 3, 5, 33] {
                for k in [1usize, n - 1] {
                    for kind in [Kind::FubIter(n), Kind::FobIter(n), Kind::FuIter(n), Kind::FoIter(n), Kind::Ja(n), Kind::Tja(n), Kind::Mb(n), Kind::MuIter(n)] {
                        let mut c = Cfg::new("C06", kind);
                        c.name = format!("{:?} from an iterator that panics after {} items", kind, k);
                        c.prefill = (0..n).map(|_| if kind.is_merge() { s("P") } else { f(Mode::Gate) }).collect();
                        c.iter_panic_at = Some(k);
                        c.ops = ops::POLL;
                        c.depth = 1;
                        c.epilogue = Epilogue::DropNow;
                        v.push(c);
                    }
                }
            }
            // children that panic in poll (the unwinding goes through the crate, the caller catches it)
            for k in [Kind::Fub(2), Kind::FuCap(1), Kind::Fob(2), Kind::Ja(2), Kind::Tja(2)] {
                let mut c = Cfg::new("C06", k);
                c.name = format!("{:?} with a panicking child", k);
                if k.is_join() {
                    c.prefill = vec![f(Mode::PanicOnce), f(Mode::Gate), f(Mode::DropPanic)];
                    c.ops = ops::POLL | ops::COMPLETE;
                } else {
                    c.specs = vec![f(Mode::PanicOnce), f(Mode::Gate), f(Mode::Ready), f(Mode::DropPanic)];
                    c.ops = ops::PUSH | ops::POLL | ops::COMPLETE;
                }
                c.depth = d;
                c.epilogue = Epilogue::DropNow;
                v.push(c);
            }
        }
        // ------------------------------------------------------------------------------------ C07
        "C07" => {
            let n = if thorough { 4 } else { 3 };
            for mut c in join_cfgs("C07", n, 2 * n + 3, 2, Epilogue::Drain) {
                c.delta = 1;
                v.push(c);
            }
            // an input that panics in poll (the caller catches the unwinding and polls on)
            for n in 1..=3usize {
                for bad in 0..n {
                    for others in [Mode::Gate, Mode::Ready] {
                        for kind in [Kind::Ja(n), Kind::Tja(n), Kind::JaP(n)] {
                            let mut c = Cfg::new("C07", kind);
                            c.name = format!("{:?} input {} panics in poll, others {:?}", kind, bad, others);
                            c.prefill = (0..n).map(|i| f(if i == bad { Mode::PanicOnce } else { others })).collect();
                            c.ops = ops::POLL | ops::COMPLETE | ops::WAKE;
                            c.depth = 2 * n + 3;
                            c.post_ready_polls = 2;
                            c.epilogue = Epilogue::Drain;
                            v.push(c);
                        }
                    }
                }
            }
            // an input whose destructor panics after it has resolved (the caller catches the unwinding
            // and carries on): whatever the combinator does then, it must not hand out foreign values
            for n in 1..=3usize {
                for bad in 0..n {
                    for others in [Mode::Gate, Mode::Ready] {
                        for kind in [Kind::Ja(n), Kind::Tja(n)] {
                            let mut c = Cfg::new("C07", kind);
                            c.name = format!("{:?} input {} has a panicking destructor, others {:?}", kind, bad, others);
                            c.prefill = (0..n).map(|i| f(if i == bad { Mode::DropPanic } else { others })).collect();
                            c.ops = ops::POLL | ops::COMPLETE;
                            c.depth = 2 * n + 3;
                            c.post_ready_polls = 2;
                            c.epilogue = Epilogue::Drain;
                            v.push(c);
                        }
                    }
                }
            }
            // many inputs (at and around the per-poll budget and the first group size)
            for nn in [32usize, 33, 60, 61, 62, 122, 123] {
                for kind in [Kind::Ja(nn), Kind::Tja(nn), Kind::JaP(nn), Kind::TjaP(nn)] {
                    for variant in 0..3 {
                        let mut c = Cfg::new("C07", kind);
                        c.name = format!("{:?} {}", kind, ["all ready", "all ready but the last", "last one fails"][variant]);
                        c.prefill = (0..nn)
                            .map(|i| {
                                if i == nn - 1 && variant == 1 {
                                    f(Mode::Gate)
                                } else if i == nn - 1 && variant == 2 && kind.is_try() {
                                    ChildSpec::failing(Mode::Ready)
                                } else {
                                    f(Mode::Ready)
                                }
                            })
                            .collect();
                        c.ops = ops::POLL | ops::COMPLETE;
                        c.focus = Some(vec![(nn - 1) as u32]);
                        c.depth = 4;
                        c.post_ready_polls = 2;
                        c.epilogue = Epilogue::Drain;
                        c.horizon = 4000;
                        v.push(c);
                    }
                }
            }
        }
        // ------------------------------------------------------------------------------------ C08
        "C08" => {
            let d = if thorough { 7 } else { 6 };
            for (k, pre) in family_uo_small().into_iter().chain([(Kind::FuCap(1), 3), (Kind::FoCap(1), 3), (Kind::FuCap(1), 7), (Kind::Fob(4), 0), (Kind::FoCap(2), 0)]) {
                let mut c = Cfg::new("C08", k);
                c.name = format!("{:?} prefill {}", k, pre);
                c.prefill = (0..pre).map(|_| f(Mode::Gate)).collect();
                c.specs = vec![f(Mode::Gate), f(Mode::Ready), f(Mode::Yield1)];
                c.ops = ops::PUSH | ops::POLL | ops::COMPLETE | ops::MOVE;
                if k.is_ordered() {
                    // push_front drives the position counters below their start: the re-basing path
                    // touches every held future
                    c.ops |= ops::PUSH_FRONT | ops::EXTEND;
                }
                c.costly = 0;
                c.depth = d;
                c.epilogue = Epilogue::Drain;
                v.push(c);
            }
            for (k, pre) in family_m() {
                let mut c = Cfg::new("C08", k);
                c.name = format!("{:?}[{}]", k, pre.iter().map(|p| p.render()).collect::<Vec<_>>().join(","));
                c.prefill = pre;
                c.specs = vec![s("IP"), s("P")];
                c.ops = ops::POLL | ops::COMPLETE | ops::PUSH | ops::MOVE;
                c.depth = d;
                c.epilogue = Epilogue::Drain;
                v.push(c);
            }
            {
                let (k, pre) = mu_prefilled(33, &[(0, "IP"), (32, "PI")]);
                let mut c = Cfg::new("C08", k);
                c.name = "Mu(33) two groups".into();
                c.prefill = pre;
                c.specs = vec![s("P")];
                c.ops = ops::POLL | ops::COMPLETE | ops::PUSH | ops::MOVE;
                c.costly = ops::COMPLETE;
                c.delta = 2;
                c.depth = 4;
                c.epilogue = Epilogue::Drain;
                c.horizon = 2000;
                c.focus = focus_of(c.prefill.len());
                v.push(c);
            }
            // the newest (largest) group runs empty while older groups still hold polled streams
            for (n, special) in [
                (33usize, vec![(32usize, "")]),
                (33, vec![(32, "I")]),
                (34, vec![(32, ""), (33, "I")]),
                (97, vec![(96, "")]),
                (97, vec![(0, "I"), (96, "I")]),
            ] {
              for unpin in [false, true] {
                let (k, pre) = mu_prefilled(n, &special);
                let k = if unpin { Kind::MuU(n) } else { k };
                let mut c = Cfg::new("C08", k);
                c.name = format!("{:?} newest group ends first {:?}", k, special);
                c.prefill = pre;
                c.specs = vec![s("P")];
                c.ops = ops::POLL | ops::COMPLETE | ops::PUSH | ops::MOVE;
                c.costly = ops::COMPLETE | ops::MOVE;
                c.delta = 1;
                c.depth = 4;
                c.epilogue = Epilogue::Drain;
                c.horizon = 4000;
                c.focus = focus_of(c.prefill.len());
                v.push(c);
              }
            }
            // the small merge scenarios once more with `Unpin` sources that live in the slots themselves
            for (k, pre) in family_m() {
                if let Kind::Mu(n) = k {
                    let mut c = Cfg::new("C08", Kind::MuU(n));
                    c.name = format!("MuU({})[{}]", n, pre.iter().map(|p| p.render()).collect::<Vec<_>>().join(","));
                    c.prefill = pre;
                    c.specs = vec![s("IP"), s("P")];
                    c.ops = ops::POLL | ops::COMPLETE | ops::PUSH | ops::MOVE;
                    c.depth = d;
                    c.epilogue = Epilogue::Drain;
                    v.push(c);
                }
            }
            // groups with more than 32 slots in use, growing after some children were polled
            for (k, n) in [
                (Kind::Fub(70), 31usize),
                (Kind::Fub(70), 32),
                (Kind::Fub(70), 64),
                (Kind::Fob(70), 32),
                (Kind::FuNew, 32),
                (Kind::FuNew, 63),
                (Kind::FuNew, 64),
                (Kind::FuNew, 95),
                (Kind::FoNew, 64),
                (Kind::FuCap(40), 32),
            ] {
                let mut c = Cfg::new("C08", k);
                c.name = format!("{:?} prefilled {} (large group)", k, n);
                c.prefill = (0..n).map(|_| f(Mode::Gate)).collect();
                c.specs = vec![f(Mode::Gate)];
                c.ops = ops::PUSH | ops::POLL | ops::COMPLETE | ops::MOVE;
                c.costly = ops::COMPLETE | ops::MOVE;
                c.delta = 1;
                c.depth = if thorough { 6 } else { 5 };
                c.focus = focus_of(n);
                c.epilogue = Epilogue::Drain;
                c.horizon = 4000;
                v.push(c);
            }
            {
                let (k, pre) = mu_prefilled(64, &[(0, "IP"), (63, "PI")]);
                let mut c = Cfg::new("C08", k);
                c.name = "Mu(64) second group half full".into();
                c.prefill = pre;
                c.specs = vec![s("P")];
                c.ops = ops::POLL | ops::COMPLETE | ops::PUSH | ops::MOVE;
                c.costly = ops::COMPLETE | ops::MOVE;
                c.delta = 1;
                c.depth = if thorough { 6 } else { 5 };
                c.focus = focus_of(64);
                c.epilogue = Epilogue::Drain;
                c.horizon = 4000;
                v.push(c);
            }
            for k in adapters(&[1, 2]) {
                let mut c = adapter_cfg("C08", k, 3, HintShape::Exact, d, 2);
                c.ops |= ops::MOVE;
                v.push(c);
            }
            for mut c in join_cfgs("C08", 2, d, 0, Epilogue::Drain) {
                c.ops |= ops::MOVE;
                v.push(c);
            }
        }
        // ------------------------------------------------------------------------------------ C09 / C10 / C16
        "C09" | "C10" | "C16" => {
            let p: &'static str = match prop {
                "C09" => "C09",
                "C10" => "C10",
                _ => "C16",
            };
            let d = if thorough { 9 } else { 8 };
            let delta = if thorough { 4 } else { 3 };
            let kinds: Vec<Kind> = if p == "C16" {
                vec![Kind::Bo(1), Kind::Bo(2), Kind::Bo(3), Kind::Tbo(1), Kind::Tbo(2), Kind::Tbo(3), Kind::BoZ(1), Kind::BoZ(2), Kind::BoZ(3)]
            } else {
                adapters(&[1, 2, 3])
            };
            for k in kinds {
                let n = match k {
                    Kind::Bu(n) | Kind::Bo(n) | Kind::Tbu(n) | Kind::Tbo(n) | Kind::Fec(n) | Kind::BoZ(n) => n,
                    _ => 0,
                };
                let lens: Vec<usize> = if p == "C16" { vec![n + 1, n + 4, 1000] } else { vec![0, 1, n + 2] };
                for len in lens {
                    let hint = if len == 1000 { HintShape::Unknown } else { HintShape::Exact };
                    let mut c = adapter_cfg(p, k, len, hint, if p == "C16" && thorough { 9 } else { d }, delta);
                    if p == "C16" {
                        // completing futures is the interesting dimension here
                        c.costly = ops::FEED_UP | ops::POLL_NEW;
                    }
                    if n >= 2 && len >= n + 2 {
                        // the same with futures that wake themselves in the poll in which they complete
                        // (stale queue entries inside the adapter's set)
                        let mut w2 = c.clone();
                        w2.name = format!("{} (self-waking completers)", w2.name);
                        w2.up_modes = [Mode::Gate, Mode::WakeReady, Mode::WakeReady];
                        v.push(w2);
                    }
                    if n >= 2 && len == n + 4 {
                        // one kind of future panics in its first poll: the unwinding leaves the adapter in the
                        // middle of a poll, the caller catches it and goes on polling
                        let mut w3 = c.clone();
                        w3.name = format!("{} (panicking futures among them)", w3.name);
                        w3.up_modes = [Mode::Gate, Mode::Ready, Mode::PanicOnce];
                        v.push(w3);
                    }
                    if let Kind::Fec(_) = k {
                        if len >= 1 {
                            // the closure itself panics for some items (caught by the caller, polled on)
                            let mut w4 = c.clone();
                            w4.name = format!("{} (the closure panics for some items)", w4.name);
                            w4.up_closure_panic = true;
                            v.push(w4);
                        }
                    }
                    v.push(c);
                }
            }
            // large limits (above the internal group size and per-poll budget)
            let big: Vec<Kind> = if p == "C16" {
                vec![Kind::Bo(33), Kind::Tbo(33), Kind::Bo(70), Kind::Tbo(70)]
            } else {
                vec![Kind::Bu(33), Kind::Bo(33), Kind::Tbu(33), Kind::Tbo(33), Kind::Fec(33), Kind::Bu(70), Kind::Tbu(70), Kind::Tbo(70), Kind::Fec(70)]
            };
            for k in big {
                for len in [40usize, 100] {
                    let mut c = adapter_cfg(p, k, len, HintShape::Exact, if thorough { 5 } else { 4 }, 1);
                    c.focus = Some(vec![0, 31, 32, 60, 61, 62, 69]);
                    c.focus_strict = true;
                    c.horizon = 4000;
                    v.push(c);
                }
            }
            if p == "C10" {
                // the documented "limit 0 = no limit" of for_each_concurrent
                for len in [0, 1, 2] {
                    v.push(adapter_cfg("C10", Kind::Fec(0), len, HintShape::Exact, 4, 2));
                }
            }
        }
        // ------------------------------------------------------------------------------------ C11
        "C11" => {
            let d = if thorough { 11 } else { 7 };
            for (k, pre) in family_m() {
                let mut c = Cfg::new("C11", k);
                c.name = format!("{:?}[{}]", k, pre.iter().map(|p| p.render()).collect::<Vec<_>>().join(","));
                c.prefill = pre;
                c.specs = merge_scripts();
                c.ops = ops::POLL | ops::POLL_NEW | ops::COMPLETE | ops::WAKE;
                if matches!(k, Kind::Mu(_) | Kind::MuIter(_)) {
                    c.ops |= ops::PUSH;
                }
                c.costly = ops::WAKE | ops::PUSH | ops::POLL_NEW;
                c.delta = 2;
                c.depth = d;
                c.epilogue = Epilogue::Drain;
                c.executor_drain = true;
                v.push(c);
            }
            // more idle sources than the per-poll budget in front of ready ones; drained like an executor
            for (k, pre) in [
                (Kind::Mb(62), (0..62).map(|i| s(if i < 61 { "P" } else { "I" })).collect::<Vec<_>>()),
                (Kind::Mb(70), (0..70).map(|i| s(if i < 61 { "P" } else { "II" })).collect::<Vec<_>>()),
                (Kind::Mb(130), (0..130).map(|i| s(if i % 2 == 0 { "P" } else { "I" })).collect::<Vec<_>>()),
                (Kind::Mu(100), (0..100).map(|i| s(if (32..93).contains(&i) { "P" } else { "I" })).collect::<Vec<_>>()),
            ] {
                let mut c = Cfg::new("C11", k);
                c.name = format!("{:?} many idle sources in front of ready ones", k);
                let n = pre.len();
                c.prefill = pre;
                c.specs = vec![s("I")];
                c.ops = ops::POLL | ops::POLL_NEW | ops::COMPLETE;
                if matches!(k, Kind::Mu(_)) {
                    c.ops |= ops::PUSH;
                }
                c.costly = ops::COMPLETE | ops::POLL_NEW;
                c.delta = 1;
                c.depth = 4;
                c.focus = focus_of(n);
                c.epilogue = Epilogue::Drain;
                c.executor_drain = true;
                c.horizon = 8000;
                v.push(c);
            }
            // pushes during consumption into a bounded merge whose sources end
            {
                let mut c = Cfg::new("C11", Kind::Mb(2));
                c.name = "Mb(2) push during consumption".into();
                c.prefill = vec![s("I"), s("P")];
                c.specs = vec![s("I"), s("PI"), s("")];
                c.ops = ops::POLL | ops::COMPLETE | ops::PUSH;
                c.depth = d;
                c.epilogue = Epilogue::Drain;
                c.executor_drain = true;
                v.push(c);
            }
            // group boundaries 32 -> 64 -> 128 of the unbounded merge; ends that empty a middle group
            for (n, special) in [
                (32usize, vec![(0usize, "I"), (31, "PI")]),
                (33, vec![(0, "IP"), (32, "PI"), (5, "")]),
                (96, vec![(0, "I"), (40, "IP"), (95, "PI")]),
                (97, vec![(31, "I"), (32, "I"), (96, "II")]),
            ] {
                let (k, pre) = mu_prefilled(n, &special);
                let mut c = Cfg::new("C11", k);
                c.name = format!("Mu({}) prefilled", n);
                c.prefill = pre;
                c.specs = vec![s("I"), s("P")];
                c.ops = ops::POLL | ops::COMPLETE | ops::PUSH;
                c.costly = ops::COMPLETE;
                c.delta = 2;
                c.depth = if thorough { 5 } else { 4 };
                c.epilogue = Epilogue::Drain;
                c.horizon = 4000;
                c.focus = focus_of(c.prefill.len());
                v.push(c);
            }
        }
        // ------------------------------------------------------------------------------------ C12
        "C12" => {
            let d = if thorough { 8 } else { 7 };
            for (k, pre) in family_uo_small().into_iter().chain([(Kind::FuCap(1), 3)]) {
                let mut c = Cfg::new("C12", k);
                c.name = format!("{:?} prefill {}", k, pre);
                c.prefill = (0..pre).map(|_| f(Mode::Gate)).collect();
                c.specs = vec![f(Mode::Gate), f(Mode::Ready), f(Mode::Yield1), f(Mode::YieldGate)];
                c.ops = ops::PUSH | ops::POLL | ops::POLL_NEW | ops::COMPLETE | ops::WAKE | ops::STALE_WAKE;
                if k.is_ordered() {
                    c.ops |= ops::PUSH_FRONT;
                }
                c.costly = ops::PUSH | ops::POLL_NEW;
                c.delta = 2;
                c.depth = d;
                c.epilogue = Epilogue::Drain;
                v.push(c);
            }
            for (k, pre) in family_m() {
                let mut c = Cfg::new("C12", k);
                c.name = format!("{:?}[{}]", k, pre.iter().map(|p| p.render()).collect::<Vec<_>>().join(","));
                c.prefill = pre;
                c.specs = vec![s("IP")];
                c.ops = ops::POLL | ops::POLL_NEW | ops::COMPLETE | ops::WAKE | ops::STALE_WAKE;
                c.depth = d;
                c.epilogue = Epilogue::Drain;
                v.push(c);
            }
            for k in adapters(&[1, 2]) {
                let mut c = adapter_cfg("C12", k, 3, HintShape::Exact, d, 2);
                c.ops |= ops::WAKE | ops::STALE_WAKE | ops::POLL_NEW;
                c.costly |= ops::POLL_NEW;
                v.push(c);
            }
            for mut c in join_cfgs("C12", 2, d, 0, Epilogue::Drain) {
                c.ops |= ops::STALE_WAKE | ops::POLL_NEW;
                c.costly = ops::POLL_NEW;
                v.push(c);
            }
            for (k, n, m) in [(Kind::Fub(70), 70, Mode::Gate), (Kind::FuNew, 40, Mode::Gate), (Kind::FuCap(1), 7, Mode::Gate)] {
                let mut c = Cfg::new("C12", k);
                c.name = format!("{:?} prefilled {}x{:?}", k, n, m);
                c.prefill = (0..n).map(|_| f(m)).collect();
                c.ops = ops::POLL | ops::POLL_NEW | ops::WAKE | ops::COMPLETE;
                c.costly = ops::WAKE | ops::COMPLETE;
                c.delta = 2;
                c.depth = 4;
                c.epilogue = Epilogue::Drain;
                c.horizon = 2000;
                c.focus = focus_of(c.prefill.len());
                v.push(c);
            }
        }
        // ------------------------------------------------------------------------------------ C13
        "C13" => {
            // around every group boundary (32, 96) and around multiples of the per-poll budget (61, 122, 183)
            let sizes: Vec<usize> = if thorough { vec![1, 2, 31, 32, 33, 60, 61, 62, 63, 96, 122, 123, 130, 183, 185] } else { vec![1, 2, 31, 32, 33, 61, 62, 96, 123] };
            let d = if thorough { 8 } else { 5 };
            #[derive(Clone, Copy, PartialEq)]
            enum Pop {
                Omega,
                YieldInf,
                Ready,
                Ring,
            }
            let add = |k: Kind, n: usize, pos: usize, pop: Pop, v: &mut Vec<Cfg>| {
                let mut c = Cfg::new("C13", k);
                let (p, vic) = match pop {
                    Pop::Omega => (s("w"), s("P")),
                    Pop::YieldInf => (f(Mode::YieldInf), f(Mode::Gate)),
                    Pop::Ready => (f(Mode::Ready), f(Mode::Gate)),
                    Pop::Ring => (f(Mode::Ring), f(Mode::Gate)),
                };
                let mut pre: Vec<ChildSpec> = (0..n).map(|_| p.clone()).collect();
                pre.insert(pos, vic);
                c.name = format!("{:?} population {}x{} victim at {}", k, n, match pop { Pop::Omega => "Iω", Pop::YieldInf => "YieldInf", Pop::Ready => "Ready", Pop::Ring => "Ring (children that wake each other, never themselves)" }, pos);
                c.prefill = pre;
                c.dormant = true;
                c.ops = ops::POLL | ops::POLL_NEW | ops::UNLEASH | ops::COMPLETE;
                c.costly = ops::POLL_NEW;
                c.delta = 1;
                c.focus = Some(vec![pos as u32]);
                c.depth = d;
                c.epilogue = Epilogue::Starve;
                c.horizon = 100_000;
                v.push(c);
            };
            for &n in &sizes {
                let mut positions = vec![0usize, 31, 32, 95, 96, n];
                positions.retain(|&p| p <= n);
                positions.sort();
                positions.dedup();
                for &pos in &positions {
                    if n >= 32 {
                        // "take an item, add a stream": a source that ends at once is pushed before every poll
                        add(Kind::Mu(n + 1), n, pos, Pop::Omega, &mut v);
                        let c = v.last_mut().unwrap();
                        c.name = format!("{} (a push before every poll)", c.name);
                        c.specs = vec![s("")];
                        c.starve_push = true;
                    }
                    add(Kind::Mu(n + 1), n, pos, Pop::Omega, &mut v);
                    add(Kind::Mb(n + 1), n, pos, Pop::Omega, &mut v);
                    for pop in [Pop::YieldInf, Pop::Ready, Pop::Ring] {
                        if pop == Pop::Ring && n < 2 {
                            continue;
                        }
                        add(Kind::FuNew, n, pos, pop, &mut v);
                        add(Kind::FubIter(n + 1), n, pos, pop, &mut v);
                        if n <= 33 {
                            add(Kind::FuCap(1), n, pos, pop, &mut v);
                            add(Kind::FoCap(1), n, pos, pop, &mut v);
                            add(Kind::Fob(n + 1), n, pos, pop, &mut v);
                        }
                    }
                }
            }
            // free-form small histories with slot reuse and stale wakes: a child that was pushed or woken
            // must still be reached (Starve epilogue: keep polling, nothing is completed)
            for (k, pre) in family_uo_small().into_iter().chain([(Kind::FuCap(1), 3), (Kind::Mb(2), 0)]) {
                let mut c = Cfg::new("C13", k);
                c.name = format!("{:?} prefill {} (slot reuse, stale wakes)", k, pre);
                c.prefill = (0..pre).map(|_| f(Mode::Gate)).collect();
                if k.is_merge() {
                    c.prefill = vec![s("I!"), s("P")];
                    c.specs = vec![s("P"), s("w")];
                } else {
                    c.specs = vec![f(Mode::Gate), f(Mode::WakeReady), f(Mode::Ready), f(Mode::YieldInf)];
                }
                c.ops = ops::PUSH | ops::POLL | ops::COMPLETE | ops::WAKE | ops::STALE_WAKE;
                if k.is_ordered() {
                    c.ops |= ops::PUSH_FRONT;
                }
                c.costly = ops::PUSH | ops::WAKE;
                c.delta = 2;
                c.depth = if thorough { 7 } else { 6 };
                c.epilogue = Epilogue::Starve;
                v.push(c);
            }
            // populations that do NOT wake themselves, above the per-poll budget: a poll that stops
            // early must have woken its task
            for (k, n, sp) in [
                (Kind::Fub(130), 130usize, f(Mode::Gate)),
                (Kind::Fub(130), 62, f(Mode::Gate)),
                (Kind::Fub(130), 63, f(Mode::Gate)),
                (Kind::FubIter(100), 100, f(Mode::Gate)),
                (Kind::FuNew, 100, f(Mode::Gate)),
                (Kind::FoNew, 100, f(Mode::Gate)),
                (Kind::Fob(100), 100, f(Mode::Gate)),
                (Kind::Mb(70), 70, s("P")),
                (Kind::Mb(100), 100, s("PI")),
                (Kind::Mu(100), 100, s("P")),
                (Kind::Ja(70), 70, f(Mode::Gate)),
            ] {
                let mut c = Cfg::new("C13", k);
                c.name = format!("{:?} {}x{} (no self-wake)", k, n, sp.render());
                c.prefill = (0..n).map(|_| sp.clone()).collect();
                c.ops = ops::POLL | ops::COMPLETE | ops::WAKE;
                c.focus = Some(vec![0, 61, 62, (n - 1) as u32]);
                c.depth = if thorough { 5 } else { 4 };
                c.epilogue = Epilogue::Starve;
                c.horizon = 100_000;
                v.push(c);
            }
            // adapters: the population comes from upstream (self-waking futures), the victim is a gate
            for k in [Kind::Bu(3), Kind::Bo(3), Kind::Tbu(3), Kind::Fec(3), Kind::Bu(2)] {
                let mut c = adapter_cfg("C13", k, 3, HintShape::Exact, d + 1, 3);
                c.up_modes = [Mode::YieldInf, Mode::Gate, Mode::Gate];
                c.dormant = true;
                c.ops |= ops::UNLEASH;
                c.epilogue = Epilogue::Starve;
                c.horizon = 100_000;
                v.push(c);
            }
        }
        // ------------------------------------------------------------------------------------ C14
        "C14" => {
            let d = if thorough { 8 } else { 6 };
            for (k, pre) in family_uo_small().into_iter().chain([(Kind::FuCap(1), 3), (Kind::FoCap(1), 3)]) {
                let mut c = Cfg::new("C14", k);
                c.name = format!("{:?} prefill {}", k, pre);
                c.prefill = (0..pre).map(|_| f(Mode::Gate)).collect();
                c.specs = vec![f(Mode::Gate), f(Mode::Ready), f(Mode::Yield1)];
                c.ops = ops::PUSH | ops::POLL | ops::POLL_NEW | ops::COMPLETE | ops::WAKE | ops::STALE_WAKE;
                if k.is_ordered() {
                    c.ops |= ops::PUSH_FRONT;
                }
                c.costly = ops::STALE_WAKE | ops::POLL_NEW | ops::PUSH;
                c.delta = 2;
                c.depth = d;
                c.epilogue = Epilogue::Quiesce;
                v.push(c);
            }
            // many stale queue entries (children that wake themselves in the poll in which they
            // complete, sources that wake themselves while ending) next to one pending child
            for (k, n) in [(Kind::Fub(8), 6usize), (Kind::FubIter(7), 6), (Kind::FuNew, 6), (Kind::Fob(8), 6), (Kind::FuCap(1), 6), (Kind::Ja(7), 6)] {
                let mut c = Cfg::new("C14", k);
                c.name = format!("{:?}: one Gate and {} children that wake themselves while completing", k, n);
                c.prefill = (0..=n).map(|i| f(if i == 0 { Mode::Gate } else { Mode::WakeReady })).collect();
                c.ops = ops::POLL | ops::STALE_WAKE;
                c.costly = ops::STALE_WAKE;
                c.delta = 1;
                c.focus = Some(vec![1, n as u32]);
                c.depth = n + 2;
                c.epilogue = Epilogue::Quiesce;
                v.push(c);
            }
            {
                let mut c = Cfg::new("C14", Kind::Mb(7));
                c.name = "Mb(7): one pending source and 6 sources that wake themselves while ending".into();
                c.prefill = (0..7).map(|i| s(if i == 0 { "P" } else { "!" })).collect();
                c.ops = ops::POLL;
                c.depth = 4;
                c.epilogue = Epilogue::Quiesce;
                v.push(c);
            }
            for (k, pre) in family_m() {
                let mut c = Cfg::new("C14", k);
                c.name = format!("{:?}[{}]", k, pre.iter().map(|p| p.render()).collect::<Vec<_>>().join(","));
                c.prefill = pre;
                c.specs = vec![s("P"), s("IP")];
                c.ops = ops::POLL | ops::COMPLETE | ops::WAKE | ops::STALE_WAKE;
                if matches!(k, Kind::Mu(_) | Kind::MuIter(_)) {
                    c.ops |= ops::PUSH;
                }
                c.depth = d;
                c.epilogue = Epilogue::Quiesce;
                v.push(c);
            }
            for k in adapters(&[1, 2]) {
                let mut c = adapter_cfg("C14", k, 3, HintShape::Exact, d, 2);
                c.ops |= ops::WAKE | ops::STALE_WAKE;
                c.epilogue = Epilogue::Quiesce;
                v.push(c);
            }
            for (k, n) in [(Kind::Fub(130), 62usize), (Kind::Fub(130), 130), (Kind::FuNew, 70), (Kind::FuCap(1), 7)] {
                let mut c = Cfg::new("C14", k);
                c.name = format!("{:?} prefilled {} Gate", k, n);
                c.prefill = (0..n).map(|_| f(Mode::Gate)).collect();
                c.specs = vec![f(Mode::Gate)];
                c.ops = ops::PUSH | ops::POLL | ops::WAKE | ops::COMPLETE;
                c.costly = ops::WAKE | ops::COMPLETE;
                c.delta = 1;
                c.depth = 3;
                c.epilogue = Epilogue::Quiesce;
                c.horizon = 2000;
                c.focus = focus_of(c.prefill.len());
                v.push(c);
            }
            {
                let (k, pre) = mu_prefilled(40, &[]);
                let mut c = Cfg::new("C14", k);
                c.name = "Mu(40) all pending".into();
                c.prefill = pre;
                c.ops = ops::POLL | ops::WAKE | ops::COMPLETE;
                c.costly = ops::WAKE | ops::COMPLETE;
                c.delta = 1;
                c.depth = 3;
                c.epilogue = Epilogue::Quiesce;
                c.horizon = 2000;
                c.focus = focus_of(c.prefill.len());
                v.push(c);
            }
        }
        // ------------------------------------------------------------------------------------ C15
        "C15" => {
            let d = if thorough { 8 } else { 7 };
            let mut fam: Vec<(Kind, usize)> = family_u().into_iter().chain(family_o()).collect();
            fam.extend([(Kind::Fub(4), 0), (Kind::Fob(4), 0), (Kind::FuCap(0), 0), (Kind::FoCap(0), 0), (Kind::FuCap(3), 0), (Kind::FoCap(4), 0), (Kind::FubIter(0), 0), (Kind::FobIter(0), 0)]);
            for (k, pre) in fam {
                let mut c = Cfg::new("C15", k);
                c.prefill = (0..pre).map(|_| f(Mode::Gate)).collect();
                c.specs = vec![f(Mode::Gate), f(Mode::Ready)];
                c.ops = ops::PUSH | ops::POLL | ops::COMPLETE | ops::PUSH_WHEN_FULL | ops::PANIC_PUSH;
                if k.is_ordered() {
                    c.ops |= ops::PUSH_FRONT | ops::EXTEND;
                }
                c.depth = d;
                c.epilogue = Epilogue::Drain;
                v.push(c);
            }
            for (k, pre) in [(Kind::Mb(0), vec![]), (Kind::Mb(1), vec![s("")]), (Kind::Mb(2), vec![s("I"), s("")]), (Kind::Mb(3), vec![s(""), s("P"), s("")])] {
                let mut c = Cfg::new("C15", k);
                c.name = format!("{:?}[{}]", k, pre.iter().map(|p| p.render()).collect::<Vec<_>>().join(","));
                c.prefill = pre;
                c.specs = vec![s("P"), s("")];
                c.ops = ops::PUSH | ops::POLL | ops::COMPLETE | ops::PUSH_WHEN_FULL | ops::PANIC_PUSH;
                c.depth = d;
                c.epilogue = Epilogue::Drain;
                v.push(c);
            }
        }
        // ------------------------------------------------------------------------------------ C17
        "C17" => {
            let d = if thorough { 8 } else { 6 };
            for (k, pre) in family_u().into_iter().chain(family_o()) {
                let mut c = Cfg::new("C17", k);
                c.prefill = (0..pre).map(|_| f(Mode::Gate)).collect();
                c.specs = vec![f(Mode::Gate), f(Mode::Ready)];
                c.ops = ops::PUSH | ops::POLL | ops::COMPLETE | ops::PUSH_WHEN_FULL | ops::PANIC_PUSH;
                if k.is_ordered() {
                    c.ops |= ops::PUSH_FRONT | ops::EXTEND;
                }
                c.depth = d;
                c.epilogue = Epilogue::Drain;
                c.check_hints = true;
                v.push(c);
            }
            for (k, pre) in family_m() {
                let mut c = Cfg::new("C17", k);
                c.name = format!("{:?}[{}]", k, pre.iter().map(|p| p.render()).collect::<Vec<_>>().join(","));
                c.prefill = pre;
                c.ops = ops::POLL | ops::COMPLETE;
                c.depth = d;
                c.epilogue = Epilogue::Drain;
                c.check_hints = true;
                v.push(c);
            }
            for k in [Kind::Bu(1), Kind::Bu(2), Kind::Bo(1), Kind::Bo(2), Kind::Tbu(1), Kind::Tbu(2), Kind::Tbo(1), Kind::Tbo(2), Kind::Bo(3), Kind::Tbo(3)] {
                for hint in [HintShape::Exact, HintShape::Unknown, HintShape::Loose, HintShape::LooseMax] {
                    for len in [0usize, 1, 3] {
                        let mut c = adapter_cfg("C17", k, len, hint, d + 1, 2);
                        c.check_hints = true;
                        v.push(c);
                    }
                }
            }
        }
        // ------------------------------------------------------------------------------------ C18 (bounded types; the unbounded words are in special.rs)
        "C18" => {
            let d = if thorough { 6 } else { 5 };
            for (k, pre) in [(Kind::Fub(1), 0), (Kind::Fub(2), 0), (Kind::Fub(3), 0), (Kind::FubIter(2), 2), (Kind::Fub(70), 70)] {
                let mut c = Cfg::new("C18", k);
                c.name = format!("{:?} prefill {}", k, pre);
                c.prefill = (0..pre).map(|_| f(Mode::Gate)).collect();
                c.specs = vec![f(Mode::Gate), f(Mode::Ready), f(Mode::Yield1)];
                c.ops = ops::PUSH | ops::POLL | ops::POLL_NEW | ops::COMPLETE | ops::WAKE | ops::WAKER_POOL | ops::PUSH_WHEN_FULL;
                c.costly = if pre > 10 { ops::WAKE | ops::COMPLETE | ops::WAKER_POOL } else { 0 };
                c.delta = 2;
                c.depth = if pre > 10 { 4 } else { d };
                c.epilogue = Epilogue::Drain;
                c.horizon = 2000;
                c.focus = focus_of(c.prefill.len());
                v.push(c);
            }
            for (k, pre) in family_m().into_iter().filter(|(k, _)| matches!(k, Kind::Mb(_))) {
                let mut c = Cfg::new("C18", k);
                c.name = format!("{:?}[{}]", k, pre.iter().map(|p| p.render()).collect::<Vec<_>>().join(","));
                c.prefill = pre;
                c.specs = vec![s("IP")];
                c.ops = ops::PUSH | ops::POLL | ops::POLL_NEW | ops::COMPLETE | ops::WAKE | ops::WAKER_POOL;
                c.depth = d;
                c.epilogue = Epilogue::Drain;
                v.push(c);
            }
            for k in [Kind::Bu(1), Kind::Bu(2), Kind::Bu(3), Kind::Tbu(1), Kind::Tbu(2), Kind::Fec(1), Kind::Fec(2), Kind::Fec(3)] {
                let mut c = adapter_cfg("C18", k, 4, HintShape::Exact, d, 2);
                c.ops |= ops::WAKE | ops::WAKER_POOL | ops::POLL_NEW;
                v.push(c);
            }
            for mut c in join_cfgs("C18", 3, d, 1, Epilogue::Drain) {
                c.ops |= ops::WAKER_POOL | ops::POLL_NEW;
                v.push(c);
            }
        }
        _ => {}
    }
    // collections collected from many futures (above the first group size), for the properties about
    // counting, order, observers and hints
    if matches!(prop, "C02" | "C04" | "C15" | "C17") {
        for k in [Kind::FuIter(50), Kind::FoIter(50), Kind::FubIter(50), Kind::FobIter(50)] {
            let mut c = Cfg::new(
                match prop {
                    "C02" => "C02",
                    "C04" => "C04",
                    "C15" => "C15",
                    _ => "C17",
                },
                k,
            );
            c.name = format!("{:?} collected from 50 futures", k);
            c.prefill = (0..50).map(|i| f(if i % 2 == 0 { Mode::Ready } else { Mode::Gate })).collect();
            c.specs = vec![f(Mode::Ready)];
            c.ops = ops::PUSH | ops::POLL | ops::COMPLETE;
            c.focus = Some(vec![1, 49]);
            c.depth = 3;
            c.epilogue = Epilogue::Drain;
            c.check_hints = prop == "C17";
            c.horizon = 4000;
            v.push(c);
        }
    }
    // Every free-form scenario gets the whole API surface, the whole environment and every kind of
    // child, whatever the property: refused and panicking pushes, `extend` (also with an empty
    // iterator), a task waker that changes between polls, a child wake that lands while the task
    // waker is being registered, and the kinds of scripted futures (or sources) the scenario does not
    // list. All of these are deviations: they share the scenario's budget (a scenario without one gets
    // 1 deviation in the quick tier, 2 in the thorough tier), so the histories explored before are a
    // subset of the histories explored now. Where that is too expensive for the quick tier, the
    // augmented scenario runs `cut` levels shallower next to the unchanged original.
    let cut: usize = match (prop, thorough) {
        ("C02", false) | ("C04", false) | ("C05", false) | ("C08", false) | ("C12", false) | ("C15", false) => 1,
        // the thorough tier keeps its deeper original scenarios and runs the augmented ones at the
        // depth of the quick tier's originals
        (_, true) => 2,
        _ => 0,
    };
    let mut shallow: Vec<Cfg> = vec![];
    for c in v.iter_mut() {
        if c.prefill.len() > 8 || c.dormant || c.ops & ops::POLL == 0 {
            continue;
        }
        let mut a = c.clone();
        // --- operations
        let mut extra = ops::POLL_NEW;
        if !a.kind.is_join() && a.ops & ops::POLL_HOOK == 0 {
            extra |= ops::POLL_HOOK;
            if !thorough {
                a.hook_max = 2;
            }
        }
        let pushes = a.ops & ops::PUSH != 0 && !a.specs.is_empty() && (a.kind.is_collection() || a.kind.is_merge());
        if pushes {
            if a.kind.bound().is_some() {
                extra |= ops::PUSH_WHEN_FULL;
                if a.prop != "C18" {
                    // (a push that panics allocates the panic payload: the panic runtime's allocation, not the crate's)
                    extra |= ops::PANIC_PUSH;
                }
            }
            if a.kind.is_ordered() {
                extra |= ops::EXTEND | ops::EXTEND_EMPTY;
            }
        }
        let added = extra & !a.ops;
        // --- kinds of children
        let orig = a.specs.len();
        if pushes && a.costly_specs_from == usize::MAX && !matches!(a.kind, Kind::FobN(_) | Kind::FubZ(_) | Kind::FuZ(_)) {
            if a.kind.is_merge() {
                for sc in ["I", "P", "", "I!", "J", "~"] {
                    let cand = s(sc);
                    if !a.specs.iter().any(|x| x.render() == cand.render()) {
                        a.specs.push(cand);
                    }
                }
            } else {
                for m in [Mode::Gate, Mode::Ready, Mode::WakeReady, Mode::Yield1, Mode::YieldGate, Mode::PanicOnce, Mode::DropPanic] {
                    if !a.specs.iter().any(|x| x.mode == m && !x.fail) {
                        a.specs.push(f(m));
                    }
                }
            }
        }
        if added == 0 && a.specs.len() == orig {
            continue;
        }
        if a.costly == 0 {
            // no deviation classes so far: everything was free, the additions get a budget of their own
            a.delta = 1;
        }
        a.ops |= added;
        a.costly |= added;
        if a.specs.len() > orig {
            a.costly_specs_from = orig;
        }
        if cut > 0 && a.depth > cut + 2 {
            a.depth -= cut;
            a.name = format!("{} <full alphabet>", a.name);
            shallow.push(a);
        } else {
            *c = a;
        }
    }
    v.extend(shallow);
    // Children that let go of their stored waker when they complete and in their destructor (what a
    // channel receiver or a timer does): the waker is released while the crate is in the middle of
    // polling, removing or dropping that very child. (Otherwise stored wakers outlive the children
    // as stale wakers, which is the other legal behaviour.)
    let all = std::env::var("SX_RELEASE_ALL").is_ok();
    if matches!(prop, "C03" | "C05" | "C06" | "C18") || thorough || all {
        let mut dup = vec![];
        for c in &v {
            if c.prefill.len() <= 8 || matches!(prop, "C03" | "C06") {
                let mut d = c.clone();
                if !matches!(prop, "C03" | "C05" | "C06" | "C18") && d.depth > 4 {
                    d.depth -= 1;
                }
                d.release_wakers = true;
                d.name = format!("{} <children release their wakers>", d.name);
                dup.push(d);
            }
        }
        v.extend(dup);
    }
    // every scenario built by a from_iter-style constructor is also run with an inexact size hint
    let mut extra = vec![];
    for c in &v {
        if matches!(c.kind, Kind::FubIter(_) | Kind::FuIter(_) | Kind::FobIter(_) | Kind::FoIter(_) | Kind::Mb(_) | Kind::MuIter(_)) && !c.inexact_iter && c.prefill.len() <= 64 {
            let mut d = c.clone();
            d.inexact_iter = true;
            d.name = format!("{} <via filter()>", d.name);
            extra.push(d);
        }
    }
    v.extend(extra);
    v
}
