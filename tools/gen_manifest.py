#!/usr/bin/env python3
"""Regenerates /verif/MANIFEST.json (one entry per claimed property)."""
import json, subprocess

hooks = subprocess.check_output(["git", "-C", "/repo", "log", "--format=%H %s"], text=True).splitlines()
hook_commits = [l.split()[0] for l in hooks if "verif hooks" in l]

SX = "sx: exhaustive choice-tree exploration (stateless DFS with replay) of operation histories on the real crate"
LX = "lx: loom 0.5.6 exploring thread interleavings of the real waker list / queue / poll loop"

P = {
 "C01": ("LX+SX", "model checking: loom explores every interleaving (preemption bound 2 quick / 3 thorough; no bound at all for the scenarios on which loom terminates without one) of 1-3 waker threads against a small executor that sleeps until the most recent task waker is invoked - a lost wake-up is a reported deadlock; SX explores all push/poll/complete/wake/stale-wake/new-waker histories (depth 6 quick / 8 thorough, plus prefilled states with 62..130 children and 2-3 groups) with the invariant 'last poll Pending and a pushed-or-woken child un-polled => that poll's task waker was invoked' evaluated after every operation",
         "bounded: <=3 waker threads, preemption bound, history depth, deviation budget; spin's lock replaced by loom's mutex in the loom build", "§4, §6/C01"),
 "C02": ("SX", "model checking: all push/push_front/poll/complete/wake/stale-wake histories up to depth 7 (quick) / 8 (thorough) on 18 small shapes of the four collections plus populated multi-group states, against a multiset/deque reference; every prefix is also drained to the end and must yield exactly the accepted futures", "bounded depth/deviations/configurations as listed in the evidence", "§3, §6/C02"),
 "C03": ("LX+SX", "model checking: loom checks, per schedule, that every access to the shared waker block happens-before its release (canary cell in the header, hook H1) and that the block is released exactly once while wakers are cloned/woken/dropped on other threads against poll/drop of the collection; SX explores all orders in which the collection, stored wakers and cloned wakers die (depth 6/7) with allocation probes, deferred+poisoned frees, and sweeps every (capacity, slot) layout up to 64 (quick) / 512 (thorough); the thorough tier also enumerates a small slice (6725 executions) under Miri as per-execution oracle", "bounded: loom thread/preemption bounds; reads of released memory are only seen at waker-vtable entries (writes are seen via poisoning)", "§4, §6/C03"),
 "C04": ("SX", "model checking: all push_back/push_front/poll/complete histories (depth 6/7) x 11 start values of the position counters adjacent to 0, the sign bit and usize::MAX against a VecDeque reference; ordered adapters with all upstream answers; join_all/try_join_all with all completion orders of up to 4 (quick) / 5 (thorough) inputs", "bounded depth; counter seeds are the 11 boundary-adjacent values, set through hook H3", "§6/C04"),
 "C05": ("SX", "model checking: histories that retain and invoke stale wakers, recycle slots and let children wake themselves in the poll in which they complete (depth 7/9); the scripted child flags any poll after completion and every poll call checks that children finished during it are already dropped", "bounded depth/configurations", "§6/C05"),
 "C06": ("SX", "model checking with every prefix as a drop point: after each explored prefix the subject is dropped, then retained wakers, then caller-held outputs; every child and every output token must have been dropped exactly once; thorough tier adds a Miri-interpreted slice", "bounded depth (6/8) and configurations; children that panic in poll or in their destructor are part of the alphabet", "§6/C06"),
 "C07": ("SX", "model checking: join_all/try_join_all with every vector of up to 3 (quick) / 4 (thorough) inputs over {ready, late} x {Ok, Err}, all completion orders, polls continuing after the first Ready; fresh memory is 0xA5-filled so an unwritten slot is recognised deterministically; thorough tier adds a Miri-interpreted slice in which memory stays uninitialised", "an uninitialised element is recognised by its magic word", "§6/C07"),
 "C08": ("SX", "model checking: histories with a Move operation (the collection value is moved to a new heap location between polls), group creation/discard/rotation and slot reuse; each !Unpin child compares its address at every poll and at drop with that of its first poll", "bounded depth; MergeUnbounded requires Unpin sources: it is run both over boxed !Unpin sources and over Unpin sources that live in its slots and watch their own address", "§6/C08"),
 "C09": ("SX", "model checking: every upstream answer (item ready/late, Pending, end, error) is a choice point, with all completion orders, limits 1..3; oracles: unfinished futures <= n at all times, and at every Pending return n items in flight or upstream ended or upstream answered Pending in that call", "bounded depth (8/9) and deviation budget (3/4)", "§6/C09"),
 "C10": ("SX", "model checking: same exploration as C09 plus limit 0 of for_each_concurrent; oracles: upstream never polled after None, items/errors forwarded exactly once, end exactly when exhausted and idle, closure called once per item", "bounded as C09; limit 0 of for_each_concurrent is a known finding", "§6/C10"),
 "C11": ("SX", "model checking: merge sources follow scripts over {item, pending, end} incl. an always-ready source; pushes during consumption; MergeUnbounded prefilled across the 32/64/128 group boundaries; oracles: per-source sequence numbers, union at the end, None iff all ended, Pending only while some source is pending or the task was woken", "bounded depth (7/11)", "§6/C11"),
 "C12": ("SX", "model checking: redundant and stale wakes in all positions; oracle per child: polls <= 1 + number of inter-poll intervals containing a wake of its slot (+ items), and the global inequality of the property", "bounded depth", "§6/C12"),
 "C13": ("SX", "model checking over populations: always-ready merge sources / self-waking / ready futures of sizes around every group boundary and the per-poll budget x every group's first/last slot for the victim x all poll/unleash/wake prefixes (depth 5/8); oracle: a woken child is polled within 4*held+8 polls, a single poll performs <= 512*(held+1) child polls and returns", "population sizes up to 130; 'bounded' is checked against generous linear bounds", "§6/C13"),
 "C14": ("SX", "model checking: from every explored state in which all held children are pending, poll up to held+2 times: one Pending must come without the task waker having been invoked; a task-waker invocation outside a poll must be nested in a child-waker invocation", "bounded depth (6/8)", "§6/C14"),
 "C15": ("SX", "model checking: capacities 0..4, refused try_push and panicking push (exploration continues on the same object), against a counting model of len/is_empty/size_hint/is_terminated/capacity", "bounded depth (7/8)", "§6/C15"),
 "C16": ("SX", "model checking: ordered adapters, n 1..3, upstream lengths n+1, n+4 and unbounded, all completion orders incl. the stalled head; oracle after every operation: pulled - yielded <= n", "bounded depth (8/9)", "§6/C16"),
 "C17": ("SX", "model checking: size_hint recorded at every explored state and after each drain step, compared with the number of items actually yielded afterwards; three honest upstream hint shapes", "bounded depth (6/8)", "§6/C17"),
 "C18": ("SX", "model checking: tracking global allocator counts allocations while control is inside the crate; bounded types: zero in every explored history incl. waker clone/drop; unbounded types: all fill/drain words up to length 4 (quick) / 5 (thorough) repeated 16/64 times against 4*ceil(log2(peak+1))+16", "allocator interposition is trusted", "§6/C18"),
}

checks = []
for pid in sorted(P):
    eng, text, note, ref = P[pid]
    checks.append({
        "property_id": pid,
        "quick_cmd": "./check %s --tier quick" % pid,
        "thorough_cmd": "./check %s --tier thorough" % pid,
        "evidence_file": "/verif/evidence/%s.json" % pid,
        "replay_cmd_template": "./check replay {path}",
        "engine": eng,
        "level_claimed": {"category": "model_checking", "text": text, "design_ref": ref},
        "level_note": note,
        "technique": "bounded exhaustive exploration of real executions" + (" (loom schedules + stateless DFS over operation histories)" if "LX" in eng else " (stateless DFS with replay over operation histories)"),
    })

m = {
    "version": 1,
    "setup_cmd": "./check build",
    "hooks": {
        "guard": "--cfg futures_buffered_verif (and --cfg loom --cfg diatomic_waker_loom for the loom engine)",
        "enable": "the harness crates /verif/sx and /verif/lx depend on /repo by path and set the cfg flags through build.rustflags in their .cargo/config.toml",
        "baseline_off_cmd": "cd /repo && CARGO_NET_OFFLINE=true cargo nextest run --workspace --no-fail-fast --tool-config-file pb:/w/lib/nextest.toml --profile pb --test-threads 8 --offline",
        "source_commits": hook_commits,
        "add_only": True,
    },
    "engines": [
        {"name": "sx", "path": "/verif/sx", "serves_properties": sorted(P), "kind_free_text": SX},
        {"name": "lx", "path": "/verif/lx", "serves_properties": ["C01", "C03"], "kind_free_text": LX},
    ],
    "checks": checks,
    "not_applicable": [],
    "notes": "Known findings are listed in /verif/known_findings.json; seeded property-breaking changes and what catches them are in /verif/seeded and DESIGN.md.",
}
json.dump(m, open("/verif/MANIFEST.json", "w"), indent=1)
print("wrote MANIFEST.json with", len(checks), "checks")
