//! Checks that are not free-form histories (layout sweep, starvation populations, allocation words).
pub fn check(_prop: &str, _tier: &str, _threads: usize, _cap: f64) -> Option<String> {
    None
}
pub fn replay(_prop: &str, _tier: &str, _scen: &str) -> Option<String> {
    None
}
